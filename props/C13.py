"""C13 - local-maximum labelling follows steepest ascent for every thread count (bounded stand-ins; the race is a known finding)."""
import numpy as np
from verif.units import BoundedUnit, CUnit
import contracts  # noqa

LEVEL = "other"
TRUSTED = []
WALL_MS = 60000
ASSUMPTIONS = ["bounded: seeded images only; of the sequential contract of localmaxlabel.c (DESIGN.md section 5, C13) only the first stage (neighbormax) "
               "is under the solver; the label counting and the walk-to-maximum stage (a hand-made thread split with unsynchronised reads) are not"]
EXPLANATION = ("Proved for all images of at least 2x2 pixels (neighbormax, the first stage): memory safety, data-race freedom of the row loop, and every "
               "interior pixel receives a direction code 1..9 pointing at a largest of its nine neighbours (5 = the pixel is a local maximum); which "
               "of several equal maxima is chosen is left open, as the property speaks about tie-free images. Bounded (not counted as proved): "
               "run-time contracts on the freshly compiled kernels: the dense result for 1 thread equals the steepest-ascent specification "
               "(walk to the largest of the 8 neighbours until a maximum or the border is reached) on tie-free images, the number of labels equals the "
               "number of interior maxima, border pixels are 0, the result does not depend on the previous content of the label/work buffers nor on the "
               "thread count (lattice images: every pixel one step from its maximum; smooth images: long ascent paths), sparse and dense variants induce "
               "the same partition.")


def steepest(img):
    ns, nf = img.shape
    lab = np.zeros(img.shape, int)
    nxt = -np.ones(img.shape + (2,), int)
    ismax = np.zeros(img.shape, bool)
    for i in range(1, ns - 1):
        for j in range(1, nf - 1):
            w = img[i - 1:i + 2, j - 1:j + 2]
            a, b = np.unravel_index(np.argmax(w), w.shape)
            if (a, b) == (1, 1):
                ismax[i, j] = True
            nxt[i, j] = (i - 1 + a, j - 1 + b)
    n = 0
    for i in range(1, ns - 1):          # labels are numbered in raster order of the maxima
        for j in range(1, nf - 1):
            if ismax[i, j]:
                n += 1
                lab[i, j] = n
    out = np.zeros(img.shape, int)
    for i in range(1, ns - 1):
        for j in range(1, nf - 1):
            a, b = i, j
            while True:
                if a in (0, ns - 1) or b in (0, nf - 1):
                    out[i, j] = 0
                    break
                if ismax[a, b]:
                    out[i, j] = lab[a, b]
                    break
                a, b = nxt[a, b]
    return n, out


def tiefree(rng, shape, smooth):
    ns, nf = shape
    if smooth:
        y, x = np.mgrid[0:ns, 0:nf]
        img = np.zeros(shape)
        for _ in range(3):
            cy, cx, s = rng.uniform(0, ns), rng.uniform(0, nf), rng.uniform(0.3, 0.8) * max(ns, nf)
            img += rng.uniform(1, 5) * np.exp(-((y - cy) ** 2 + (x - cx) ** 2) / (2 * s * s))
        img += rng.permutation(ns * nf).reshape(shape) * 1e-9
    else:
        img = rng.permutation(ns * nf).reshape(shape).astype(float)
    return img.astype(np.float32)


def lattice(shape):
    """maxima on every third pixel: every interior pixel is at most one step from its maximum (no path relabelling, no race)"""
    ns, nf = shape
    y, x = np.mgrid[0:ns, 0:nf]
    img = 100.0 - 10.0 * (np.abs(((y + 1) % 3) - 1) + np.abs(((x + 1) % 3) - 1)) + (y * nf + x) * 1e-4
    return img.astype(np.float32)


def bounded(ctx):
    from verif import clib
    rng = np.random.RandomState(ctx.seed)
    fails, ev, samples = [], 0, []
    nthr = [1, 2, 3, 7, 12, 16]
    # (a) one thread vs the steepest ascent specification, buffers pre-filled with two different patterns
    shapes = [(3, 3), (4, 5), (7, 7), (12, 9), (20, 31), (33, 17)] + ([(64, 64), (50, 80)] if ctx.tier == "thorough" else [])
    for shape in shapes:
        for smooth in (False, True):
            for rep in range(2 if ctx.tier == "quick" else 6):
                img = tiefree(rng, shape, smooth)
                n0, want = steepest(img)
                clib.set_threads(1)
                res = [clib.localmaxlabel(img, fl, fw) for fl, fw in ((-7, 77), (123456, 5))]
                ev += 1
                for n, lab in res:
                    if n != n0 or not np.array_equal(lab, want):
                        if len(fails) < 6:
                            fails.append(dict(name="dense result (1 thread) differs from steepest ascent / depends on previous buffer content",
                                              shape=shape, smooth=smooth, got_n=int(n), want_n=int(n0)))
                        break
                # sparse variant: same partition on the same pixels (all pixels of the frame given, sorted)
                ii, jj = np.indices(shape)
                ns_, sl = clib.sparse_localmaxlabel(img.ravel(), ii.ravel(), jj.ravel())
                # compare on interior pixels whose ascent never touches the border (the sparse variant has no border convention)
                sl = sl.reshape(shape)
                inter = want > 0
                m1, m2, ok = {}, {}, True
                for a, b in zip(want[inter].ravel(), sl[inter].ravel()):
                    if m1.setdefault(a, b) != b or m2.setdefault(b, a) != a:
                        ok = False
                        break
                if not ok and len(fails) < 6:
                    fails.append(dict(name="sparse and dense variants induce different partitions", shape=shape, smooth=smooth))
        if len(samples) < 2:
            samples.append(dict(shape=shape))
    # (d) sparse patterns with gaps: partition of the stored pixels vs steepest ascent among the stored 8-neighbours
    def sparse_reference(ii, jj, vv):
        pos = {(a, b): k for k, (a, b) in enumerate(zip(ii, jj))}
        up = []
        for k, (a, b) in enumerate(zip(ii, jj)):
            best = k
            for da in (-1, 0, 1):
                for db in (-1, 0, 1):
                    q = pos.get((a + da, b + db))
                    if q is not None and vv[q] > vv[best]:
                        best = q
            up.append(best)
        root = []
        for k in range(len(ii)):
            q = k
            while up[q] != q:
                q = up[q]
            root.append(q)
        return root
    patterns = [(np.array([1, 1, 4, 4]), np.array([1, 2, 3, 4]), np.array([5., 9., 3., 7.])),
                (np.array([0, 0, 2, 2, 2]), np.array([0, 5, 6, 7, 9]), np.array([1., 8., 3., 9., 2.]))]
    for _ in range(60 if ctx.tier == "quick" else 600):
        nr, nc = rng.randint(3, 14), rng.randint(3, 14)
        rows = np.sort(rng.choice(np.arange(0, 3 * nr), size=nr, replace=False))     # stored rows with empty rows in between
        pts = []
        prev_last = None
        for r in rows:
            cols = np.sort(rng.choice(np.arange(nc + 4), size=rng.randint(1, nc), replace=False))
            if prev_last is not None and rng.rand() < 0.5:
                cols = np.unique(np.concatenate([[prev_last + 1], cols[cols > prev_last + 1]]))   # first stored column = last column of the row before + 1
            pts += [(r, c) for c in cols]
            prev_last = cols[-1]
        a = np.array(pts)
        patterns.append((a[:, 0], a[:, 1], rng.permutation(len(a)).astype(float) + 1))
    from verif.tunits import repo_module
    from verif import extbuild
    extbuild.ensure_current()
    spf = repo_module("ImageD11.sparseframe")
    for k, (ii, jj, vv) in enumerate(patterns[:20]):
        # the python glue on a sparse_frame object gives the labels of the kernel (nlabel stored with them)
        fr = spf.sparse_frame(ii, jj, (int(ii.max()) + 2, int(jj.max()) + 2), itype=np.uint16)
        fr.set_pixels("intensity", vv.astype(np.float32), {})
        ng = spf.sparse_localmax(fr)
        nk, sk = clib.sparse_localmaxlabel(vv, ii, jj)
        ev += 1
        if ng != nk or not np.array_equal(np.asarray(fr.pixels["localmax"]), sk):
            if len(fails) < 6:
                fails.append(dict(name="sparseframe.sparse_localmax differs from the kernel on the same pixels", pattern=k))
    for ii, jj, vv in patterns:
        ev += 1
        nl, sl = clib.sparse_localmaxlabel(vv, ii, jj)
        root = sparse_reference(ii, jj, vv)
        m1, m2, ok = {}, {}, nl == len(set(root))
        for a, b in zip(root, sl):
            if m1.setdefault(a, b) != b or m2.setdefault(b, a) != a:
                ok = False
        if not ok and len(fails) < 6:
            fails.append(dict(name="sparse pattern with gaps: labels differ from steepest ascent among the stored neighbours",
                              rows=[int(x) for x in ii], cols=[int(x) for x in jj], values=[float(x) for x in vv],
                              labels=[int(x) for x in sl], nlabels=int(nl)))
    # (b) thread independence on lattice images (deterministic: no path relabelling happens)
    for shape in [(9, 9), (30, 7), (1001, 7), (1000, 3), (64, 64), (200, 5), (37, 53)]:
        img = lattice(shape)
        clib.set_threads(1)
        n1, l1 = clib.localmaxlabel(img)
        for t in nthr[1:] + [19, 29]:
            clib.set_threads(t)
            for fl in (-7, 99):
                n, lab = clib.localmaxlabel(img, fl, 3)
                ev += 1
                if n != n1 or not np.array_equal(lab, l1):
                    if len(fails) < 6:
                        bad = np.argwhere(lab != l1)
                        fails.append(dict(name="result depends on the thread count (lattice image, no ascent paths)", shape=shape, threads=t,
                                          first_difference=[int(x) for x in bad[0]] if len(bad) else None))
                    break
    # (c) thread independence on smooth images with long ascent paths: the known race
    shape = (300, 400)
    img = tiefree(np.random.RandomState(12345), shape, True)
    clib.set_threads(1)
    n1, l1 = clib.localmaxlabel(img)
    differ = 0
    reps = 40 if ctx.tier == "quick" else 200
    clib.set_threads(8)
    for _ in range(reps):
        n, lab = clib.localmaxlabel(img)
        ev += 1
        if n != n1 or not np.array_equal(lab, l1):
            differ += 1
    if differ:
        fails.append(dict(name="race: result with 8 threads differs from 1 thread on a smooth 300x400 image (path relabelling)", runs=reps, differing=differ))
    clib.set_threads(16)
    return dict(evaluations=ev, distinct_nontrivial=ev, samples=samples, failures=fails,
                rule="tie-free random and smooth images of shapes %s vs the steepest-ascent oracle (2 buffer prefills); lattice images x thread counts; "
                     "300x400 smooth image, 8 threads x %d runs" % (shapes, reps))


def units(ctx):
    return [CUnit("localmaxlabel.c:neighbormax"), BoundedUnit("steepest-ascent-threads-buffers", bounded, "6 (thorough 8) shapes x 2 image kinds; 62 (thorough 602) gapped sparse patterns; 7 lattice shapes x 7 thread counts; 40 (thorough 200) race runs")]
