"""C10 - finite strain tensors are objective, symmetric and exact for known deformations."""
from verif.units import BoundedUnit
import contracts  # noqa
from contracts import py_cell, py_strain

LEVEL = "proof"
WALL_MS = 60000
TRUSTED = ["assumed contract of numpy.linalg.svd for invertible F: F = w.diag(s).vh, w and vh orthogonal, the stretch factors symmetric positive definite",
           "uniqueness of the symmetric positive definite square root (used for objectivity on the svd paths and for 'zero strain iff same cell')",
           "ring laws of 3x3 matrices, transpose and inverse laws (axioms of verif/matmode.py); numpy.linalg.inv = adjugate formula",
           "numpy.linalg.matrix_power(M, n) is the n-fold product (inverse for negative n)"]
ASSUMPTIONS = ["'agree to first order for all m' is an asymptotic statement and is not claimed",
               "for m = 0 objectivity is not derived (log S is expressed through the factors of the particular svd)"]
EXPLANATION = ("The real DeformationGradientTensor code is executed on abstract matrix symbols for m in {-1,-1/2,0,1/2,1,3/2,2}: polar decomposition "
               "F = R.S = V.R, R orthogonal, S and V symmetric, E_ref = (S^2m - I)/2m (log S for m=0), E_lab = R.E_ref.R^T = (V^2m - I)/2m, both symmetric, "
               "E_ref(Q.F) = E_ref(F), E = 0 for a pure rotation - all decided by z3 at matrix level. The vectorised map functions and the grain methods "
               "are traced (scalar mode) and shown to pass the same F = ubi^T.B0^T (B0 from the reference Busing-Levy formula) to the svd and to "
               "combine its factors in the same way. A bounded numeric run with known stretches is reported separately.")


def units(ctx):
    return (py_strain.units() + py_cell.units_c10_copies() + py_cell.units_c10_grain() + py_cell.units_c10_frames() +
            [BoundedUnit("known-stretch-numeric", py_cell.b_c10_numeric, "25 (thorough 250) random cells x stretches x 7 values of m")])
