"""C12 - peak properties and frame-to-frame merging conserve pixels and intensity (proofs for the accumulators + bounded pipeline check)."""
import io
import itertools
import numpy as np
from verif.units import CUnit, BoundedUnit
from verif.tunits import repo_module
import contracts  # noqa

LEVEL = "other"
WALL_MS = 60000
TRUSTED = ["the python glue of labelimage (mergelast / outputpeaks) is exercised only by the bounded stand-in"]
ASSUMPTIONS = ["bounded: frame stacks of the stated sizes only; bloboverlaps and the maximum / bounding-box clauses of blobproperties are not under contract"]
EXPLANATION = ("Proved for all inputs: add_pixel updates each of the 22 accumulators by the pixel's contribution (sums, maximum pixel, bounding box); merge "
               "combines two accumulator rows (sums added, maximum and bounding box combined, second row zeroed); blobproperties leaves in each of the "
               "12 sum accumulators of every label (a ghost label constant) the double sum over rows and columns of the labelled pixels' contributions; "
               "compute_moments turns the sums of every peak (ghost row) into average intensity and the three intensity-weighted centroids, the sums "
               "untouched; memory safety of blob_moments. Bounded (not counted as proved): the real labelimage pipeline (peaksearch / mergelast / finalise through the compiled "
               "extension) on every pair of binary 2x3 frames, every triple of 2x2 frames and seeded random stacks with increasing and decreasing omega: "
               "one written peak per 3-D component, pixel count, summed intensity, centroid (s, f, omega), maximum pixel and bounding box equal.")

COLS = ("sc fc omega Number_of_pixels avg_intensity s_raw f_raw sigs sigf covsf sigo covso covfo sum_intensity sum_intensity^2 "
        "IMax_int IMax_s IMax_f IMax_o Min_s Max_s Min_f Max_f Min_o Max_o dety detz onfirst onlast spot3d_id").split()


def components3d(stack, thr):
    nz, ns, nf = stack.shape
    lab = np.zeros(stack.shape, int)
    n = 0
    comps = []
    for z in range(nz):
        for i in range(ns):
            for j in range(nf):
                if stack[z, i, j] > thr and not lab[z, i, j]:
                    n += 1
                    lab[z, i, j] = n
                    st, px = [(z, i, j)], []
                    while st:
                        a, b, c = st.pop()
                        px.append((a, b, c))
                        nb = [(a, b + db, c + dc) for db in (-1, 0, 1) for dc in (-1, 0, 1) if (db, dc) != (0, 0)] + [(a - 1, b, c), (a + 1, b, c)]
                        for x, y, w in nb:
                            if 0 <= x < nz and 0 <= y < ns and 0 <= w < nf and stack[x, y, w] > thr and not lab[x, y, w]:
                                lab[x, y, w] = n
                                st.append((x, y, w))
                    comps.append(px)
    return comps


def run_pipeline(li, stack, omegas, thr):
    out, spt = io.StringIO(), io.StringIO()
    lab = li.labelimage(stack.shape[1:], fileout=out, sptfile=spt)
    for frame, om in zip(stack, omegas):
        lab.peaksearch(frame, thr, om)
        lab.mergelast()
    lab.finalise()
    rows = []
    for line in out.getvalue().splitlines():
        if line.startswith("#") or not line.strip():
            continue
        v = [float(x) for x in line.split()]
        rows.append(dict(zip(COLS, v)))
    return rows


def compare(stack, omegas, thr, rows):
    comps = components3d(stack, thr)
    if len(rows) != len(comps):
        return "number of written peaks %d != number of 3D components %d" % (len(rows), len(comps))
    want = []
    for px in comps:
        I = np.array([stack[p] for p in px], float)
        s = np.array([p[1] for p in px], float)
        f = np.array([p[2] for p in px], float)
        o = np.array([omegas[p[0]] for p in px], float)
        k = int(np.argmax(I))
        want.append(dict(n=len(px), sumI=I.sum(), s=(s * I).sum() / I.sum(), f=(f * I).sum() / I.sum(), o=(o * I).sum() / I.sum(),
                         mx=I.max(), mn_s=s.min(), mx_s=s.max(), mn_f=f.min(), mx_f=f.max(), mn_o=o.min(), mx_o=o.max()))
    used = set()
    for w in want:
        hit = None
        for ri, r in enumerate(rows):
            if ri in used:
                continue
            if (r["Number_of_pixels"] == w["n"] and abs(r["sum_intensity"] - w["sumI"]) < 1e-3 * max(1, w["sumI"]) and
                    abs(r["s_raw"] - w["s"]) < 2e-4 and abs(r["f_raw"] - w["f"]) < 2e-4):
                hit = ri
                break
        if hit is None:
            return "no written peak matches a component (pixels %d, intensity %.3f, centroid %.3f %.3f)" % (w["n"], w["sumI"], w["s"], w["f"])
        used.add(hit)
        r = rows[hit]
        for nm, col, tol in (("o", "omega", 2e-4), ("mx", "IMax_int", 1e-3), ("mn_s", "Min_s", 0), ("mx_s", "Max_s", 0), ("mn_f", "Min_f", 0),
                             ("mx_f", "Max_f", 0), ("mn_o", "Min_o", 2e-4), ("mx_o", "Max_o", 2e-4)):
            if abs(r[col] - w[nm]) > tol + 1e-9:
                return "%s of a merged peak is %s, its component has %s" % (col, r[col], w[nm])
    return None


def bounded(ctx):
    from verif import extbuild
    extbuild.ensure_current()
    li = repo_module("ImageD11.labelimage")
    rng = np.random.RandomState(ctx.seed)
    fails, ev, samples = [], 0, []
    cases = []
    vals = np.array([[3.0, 5.0, 7.0], [11.0, 13.0, 17.0]])
    masks23 = [np.array(b).reshape(2, 3) for b in itertools.product((0, 1), repeat=6)]
    step = 1 if ctx.tier == "thorough" else 3
    for a in masks23[::step]:
        for b in masks23:
            cases.append((np.array([a * vals, b * (vals + 0.5)]), [0.0, 0.25]))
    masks22 = [np.array(b).reshape(2, 2) for b in itertools.product((0, 1), repeat=4)]
    v2 = np.array([[3.0, 5.0], [7.0, 11.0]])
    for a in masks22:
        for b in masks22:
            for c in masks22:
                cases.append((np.array([a * v2, b * (v2 + 1), c * (v2 + 2)]), [10.0, 9.5, 9.0]))        # decreasing omega
    for _ in range(40 if ctx.tier == "quick" else 300):
        nz, ns, nf = rng.randint(2, 7), rng.randint(2, 9), rng.randint(2, 9)
        st = rng.rand(nz, ns, nf) * 100 * (rng.rand(nz, ns, nf) < rng.choice([0.2, 0.4, 0.6]))
        sgn = rng.choice([1, -1])
        cases.append((st, list(5.0 + sgn * 0.5 * np.arange(nz))))
    for stack, om in cases:
        stack = stack.astype(np.float32)
        ev += 1
        try:
            rows = run_pipeline(li, stack, om, 1.0)
            msg = compare(stack, om, 1.0, rows)
        except Exception as e:
            msg = "pipeline raised %s: %s" % (type(e).__name__, str(e)[:100])
        if msg and len(fails) < 6:
            fails.append(dict(name=msg, frames=stack.tolist() if stack.size <= 24 else "shape %s" % (stack.shape,), omega=[float(x) for x in om]))
        if len(samples) < 2 and stack.any():
            samples.append(dict(shape=list(stack.shape), omega=[float(x) for x in om]))
    return dict(evaluations=ev, distinct_nontrivial=ev, samples=samples, failures=fails,
                rule="pairs of binary 2x3 frames (every %s first frame x all second frames), all triples of 2x2 frames with decreasing omega, seeded "
                     "random stacks up to 6 frames of 8x8 with increasing or decreasing omega" % ("" if step == 1 else "third"))


def units(ctx):
    return [CUnit("blobs.c:add_pixel"), CUnit("blobs.c:merge"), CUnit("blobs.c:compute_moments"),
            CUnit("connectedpixels.c:blobproperties"), CUnit("connectedpixels.c:blob_moments", mode="safety"),
            BoundedUnit("labelimage-pipeline-vs-3d-components", bounded, "1344 (thorough 4096) frame pairs, 4096 frame triples, 40 (thorough 300) random stacks")]
