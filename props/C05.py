"""C05 - two indexed reflections determine the correct orientation (Busing-Levy): functional proof of the kernel + bounded stand-in."""
import numpy as np
from verif.units import CUnit, BoundedUnit
from verif.tunits import repo_module
import contracts  # noqa

LEVEL = "other"
WALL_MS = 60000
TRUSTED = []
ASSUMPTIONS = ["bounded: the stated cells, rings and reflection pairs only for unitcell.orient / filter_pairs / BTmat (python side)",
               "quickorient is proved over the reals (machine arithmetic treated as mathematical; sqrt(x)^2 == x instantiated per call) under the "
               "precondition g1 != 0 and g1 x g2 != 0; that BT = BTmat(h1, h2) holds the crystal-frame coordinates is bounded only"]
EXPLANATION = ("Proved: memory safety of the compiled quickorient kernel and its Busing-Levy postcondition: for all g1, g2 with g1 x g2 != 0 and all BT "
               "the result R satisfies R.g1 = BT.(|g1|,0,0), R.(g1 x g2) = BT.(0,0,|g1 x g2|), R.g2 = BT.(g1.g2/|g1|, -|g1 x g2|/|g1|, 0), which fixes "
               "all nine entries. Bounded (not counted as proved): for 9 cells of all lattice systems, random "
               "orientations and every pair of non-collinear reflections from the first rings (both the closest-angle and the crange > 0 mode of "
               "unitcell.orient), every candidate is right-handed, has the cell's parameters and gives integer hkl to both reflections; the candidate "
               "list contains an orientation equivalent to the true one (integer unimodular change of basis preserving the metric) and no two "
               "candidates describing the same lattice.")

CELLS = [([4.04, 4.04, 4.04, 90, 90, 90], "F"), ([2.87, 2.87, 2.87, 90, 90, 90], "I"), ([3.0, 3.0, 5.0, 90, 90, 120], "P"),
         ([4.6, 4.6, 2.95, 90, 90, 90], "P"), ([3.0, 4.0, 5.0, 90, 90, 90], "P"), ([5.1, 6.2, 7.3, 90, 100, 90], "P"),
         ([5.0, 5.0, 5.0, 80, 80, 80], "P"), ([3.1, 4.2, 7.3, 62, 71, 118], "P"), ([4.0, 5.0, 6.0, 90, 90, 90], "C")]


def rot(rng):
    q = rng.normal(size=4)
    q /= np.linalg.norm(q)
    a, b, c, d = q
    return np.array([[a*a+b*b-c*c-d*d, 2*(b*c-a*d), 2*(b*d+a*c)], [2*(b*c+a*d), a*a-b*b+c*c-d*d, 2*(c*d-a*b)],
                     [2*(b*d-a*c), 2*(c*d+a*b), a*a-b*b-c*c+d*d]])


def equivalent(ubi1, ub2, g):
    """ubi1 and inverse(ub2) describe the same lattice: M = ubi1.ub2 is integer, |det| = 1 and preserves the metric g"""
    M = ubi1.dot(ub2)
    return (np.abs(M - np.round(M)).max() < 1e-6 and abs(abs(np.linalg.det(M)) - 1) < 1e-6 and
            np.allclose(np.round(M).dot(g).dot(np.round(M).T), g, atol=1e-6 * np.abs(g).max()))


def bounded(ctx):
    from verif import extbuild
    extbuild.ensure_current()
    uc = repo_module("ImageD11.unitcell")
    ix = repo_module("ImageD11.indexing")
    rng = np.random.RandomState(ctx.seed)
    fails, ev, samples = [], 0, []
    nring = 3 if ctx.tier == "quick" else 5
    for cell, sym in CELLS:
        u = uc.unitcell(cell, sym)
        # ring tolerance far below any d* difference of these cells: a "ring" is then one d-spacing (with a user-sized tolerance two
        # families 2e-4 apart in d* merge into one ring of the triclinic cell, and orient, which compares angles only, may then assign
        # the hkl of the neighbouring family - a consequence of the tolerance the caller chose, not of the orientation code)
        u.makerings(1.2 / min(cell[:3]) * 2.2, 1e-6)
        U = rot(rng)
        UB = U.dot(u.B)
        UBI_true = np.linalg.inv(UB)
        rings = list(range(min(nring, len(u.ringds))))
        for r1 in rings:
            for r2 in rings:
                h1s = u.ringhkls[u.ringds[r1]]
                h2s = u.ringhkls[u.ringds[r2]]
                pairs = [(a, b) for a in h1s for b in h2s if np.linalg.norm(np.cross(a, b)) > 0]
                if ctx.tier == "quick" and len(pairs) > 24:
                    pairs = [pairs[k] for k in rng.choice(len(pairs), 24, replace=False)]
                for h1, h2 in pairs:
                    g1, g2 = UB.dot(h1), UB.dot(h2)
                    for crange in (-1.0, 0.01):
                        ev += 1
                        try:
                            u.orient(r1, g1, r2, g2, verbose=0, crange=crange)
                        except Exception as e:
                            if len(fails) < 6:
                                fails.append(dict(name="orient raised %s: %s" % (type(e).__name__, str(e)[:80]), cell=cell, h1=list(h1), h2=list(h2)))
                            continue
                        cands = list(u.UBIlist)
                        tag = dict(cell=cell, sym=sym, h1=[int(x) for x in h1], h2=[int(x) for x in h2], crange=crange, U=U.tolist(), rings=[r1, r2])
                        # with several hkl pairs at the same angle only the candidate list (crange > 0) is required to contain the truth;
                        # the closest-angle mode returns a single assignment
                        if crange > 0 and not any(equivalent(c, UB, u.g) for c in cands):
                            if len(fails) < 6:
                                fails.append(dict(name="no candidate is equivalent to the true orientation", ncand=len(cands), **tag))
                            continue
                        for c in cands:
                            hk1, hk2 = c.dot(g1), c.dot(g2)
                            okc = np.linalg.det(c) > 0 and np.allclose(ix.ubitocellpars(c), cell, atol=1e-5)
                            if not okc and len(fails) < 6:
                                fails.append(dict(name="a candidate is left-handed or has other cell parameters", **tag))
                            # integer hkl for both reflections is demanded of the orientation generated from the best matching angle;
                            # with crange > 0 the list deliberately also holds assignments whose angle only agrees within the tolerance
                            # (two families merged into one ring by the ring tolerance), which index g2 only approximately
                            if crange < 0 and not (np.abs(hk1 - np.round(hk1)).max() < 1e-6 and np.abs(hk2 - np.round(hk2)).max() < 1e-6) \
                                    and len(fails) < 6:
                                fails.append(dict(name="the generated orientation gives non-integer hkl to a generating reflection", **tag))
                        for a in range(len(cands)):
                            for b in range(a + 1, len(cands)):
                                if equivalent(cands[a], np.linalg.inv(cands[b]), u.g) and len(fails) < 6:
                                    fails.append(dict(name="two candidates describe the same lattice", **tag))
        if len(samples) < 3:
            samples.append(dict(cell=cell, sym=sym, rings=len(rings)))
    return dict(evaluations=ev, distinct_nontrivial=ev, samples=samples, failures=fails,
                rule="9 cells (all lattice systems, F/I/C centring) x first %d rings x (up to 24 per ring pair in the quick tier) non-collinear hkl pairs x "
                     "{closest angle, crange=0.01}" % nring)


def units(ctx):
    return [CUnit("cdiffraction.c:quickorient", mode="full"),
            BoundedUnit("orient-candidates", bounded, "9 cells x 3 (thorough 5) rings x hkl pairs x 2 modes")]
