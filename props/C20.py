"""C20 - compiled kernels never touch memory outside their arguments (safety mode of every contract)."""
import os
import subprocess
import sys
from verif.units import CUnit, BoundedUnit
import contracts  # noqa
from verif.contract import CREG

LEVEL = "proof"
WALL_MS = 60000
TRUSTED = ["F2PY wrapper blocks pass arrays of exactly the declared shapes; the preconditions written in the contracts (`wellformed`) "
           "are what a well-formed call is", "ASan/UBSan-equivalent obligation classes: bounds, use-after-free, double free, leak, signed overflow, "
           "division by zero, shift, float-to-int range, uninitialised read, output definedness; float division by zero and sqrt/asin domain "
           "are NOT in this class (IEEE inf/nan are not rejected by the sanitizers)"]
ASSUMPTIONS = ["image sizes within the stated bounds (ns*nf <= 2^28 for the labelling kernels, <= INT_MAX elsewhere)"]
NOT_YET = ["connectedpixels.c:bloboverlaps (a second disjoint-set layout)", "sparse_image.c:compress_duplicates (two counting sorts)",
           "localmaxlabel.c:localmaxlabel (driver: hand-made thread split with unsynchronised reads, see the C13 finding)",
           "darkflat.c:reorder_u16_a32_a16 (addresses are running sums of a table)", "sparse_image.c:tosparse_u16_avx512 (intrinsics, not compiled here)",
           "cimaged11utils.c (wrappers of the OpenMP runtime and gettimeofday)"]
EXPLANATION = ("every function listed under functions_under_contract is verified in safety mode: functional (tagged) clauses are neither assumed nor "
               "checked, so this verdict depends only on the structural contract. Kernels not yet under contract (NOT part of this claim): "
               + "; ".join(NOT_YET))

SAFE_FILES = ("closest.c", "cdiffraction.c", "blobs.c", "connectedpixels.c", "sparse_image.c", "darkflat.c", "splat.c", "localmaxlabel.c")


def asan_suite(ctx):
    """bounded stand-in for the kernels outside engine A: boundary-shaped calls on exact-size heap buffers under ASan + UBSan"""
    from verif import creplay, cfront
    lib = creplay.build("asan")
    nprop = cfront.load("blobs.c").enums["NPROPERTY"]
    env = dict(os.environ)
    env["LD_PRELOAD"] = creplay.LIBASAN
    env["ASAN_OPTIONS"] = "detect_leaks=0:abort_on_error=0:exitcode=97:allocator_may_return_null=1"
    env["UBSAN_OPTIONS"] = "halt_on_error=1:exitcode=98:print_stacktrace=0"
    script = os.path.join(os.path.dirname(os.path.dirname(os.path.abspath(__file__))), "verif", "asan_suite.py")
    p = subprocess.run([sys.executable, script, lib, str(ctx.seed), ctx.tier, str(nprop)], capture_output=True, text=True, timeout=1800, env=env)
    calls = [l[5:] for l in p.stdout.splitlines() if l.startswith("CALL ")]
    wrong = [l for l in p.stdout.splitlines() if l.startswith("WRONG ")]
    done = any(l.startswith("SUITE-DONE") for l in p.stdout.splitlines())
    fails = []
    if not done:
        rep = creplay.sanitizer_report(dict(stderr=p.stderr)) or ("runner exit %s: %s" % (p.returncode, p.stderr[-400:]))
        fails.append(dict(name="sanitizer report in %s" % (calls[-1] if calls else "start-up"), call=calls[-1] if calls else None, report=rep))
    for w in wrong:
        fails.append(dict(name=w))
    return dict(evaluations=len(calls), distinct_nontrivial=len(calls), failures=fails,
                kernels=["compress_duplicates", "localmaxlabel", "reorder_u16_a32_a16", "bloboverlaps", "mask_to_coo (also under contract)"])


def units(ctx):
    keys = [k for k, c in CREG.items() if c.file in SAFE_FILES]
    return [CUnit(k, mode="safety") for k in sorted(keys)] + \
        [BoundedUnit("asan-ubsan-boundary-calls", asan_suite,
                     "5 kernels outside engine A x boundary shapes (1x1 .. 17x4, thorough up to 64x48), empty / full / single-pixel / random fills, "
                     "1 and 4 threads, exact-size heap buffers, gcc ASan + UBSan + float-cast-overflow")]
