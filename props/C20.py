"""C20 - compiled kernels never touch memory outside their arguments (safety mode of every contract)."""
from verif.units import CUnit
import contracts  # noqa
from verif.contract import CREG

LEVEL = "proof"
WALL_MS = 60000
TRUSTED = ["F2PY wrapper blocks pass arrays of exactly the declared shapes; the preconditions written in the contracts (`wellformed`) "
           "are what a well-formed call is", "ASan/UBSan-equivalent obligation classes: bounds, use-after-free, double free, leak, signed overflow, "
           "division by zero, shift, float-to-int range, uninitialised read, output definedness; float division by zero and sqrt/asin domain "
           "are NOT in this class (IEEE inf/nan are not rejected by the sanitizers)"]
ASSUMPTIONS = ["image sizes within the stated bounds (ns*nf <= 2^28 for the labelling kernels, <= INT_MAX elsewhere)"]
NOT_YET = ["connectedpixels.c:bloboverlaps", "sparse_image.c: mask_to_coo, compress_duplicates, sparse_connectedpixels, sparse_connectedpixels_splat, sparse_smooth, sparse_localmaxlabel", "localmaxlabel.c (2)", "darkflat.c (14)", "splat.c (1)", "cimaged11utils.c (2)"]
EXPLANATION = ("every function listed under functions_under_contract is verified in safety mode: functional (tagged) clauses are neither assumed nor "
               "checked, so this verdict depends only on the structural contract. Kernels not yet under contract (NOT part of this claim): "
               + "; ".join(NOT_YET))

SAFE_FILES = ("closest.c", "cdiffraction.c", "blobs.c", "connectedpixels.c", "sparse_image.c", "darkflat.c", "splat.c", "localmaxlabel.c")


def units(ctx):
    keys = [k for k, c in CREG.items() if c.file in SAFE_FILES]
    return [CUnit(k, mode="safety") for k in sorted(keys)]
