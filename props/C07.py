"""C07 - every peak is assigned to its best-fitting grain, whatever the order or threads."""
from verif.units import CUnit, BoundedUnit
import contracts  # noqa

LEVEL = "other"
WALL_MS = 60000
TRUSTED = []
ASSUMPTIONS = ["|ubi.g| <= 2^51 for every peak, no NaN/Inf"]
EXPLANATION = ("Proved for all inputs: score_and_assign - per-peak postcondition, frame, data-race freedom of the omp loop; contract-level lemma over grain "
               "sequences. Bounded (not counted as proved): the python glue indexer.fight_over_peaks / myhistogram on simulated grains with a twin pair and "
               "junk peaks: labels, stored errors and per-grain counts against a numpy reference over repeated calls on one indexer object, grain orders "
               "and thread counts (refinegrains.assignlabels is exercised by the C09 stand-in).")


def units(ctx):
    from contracts import py_assign
    return [CUnit("closest.c:score_and_assign"),
            BoundedUnit("fight_over_peaks-vs-reference", py_assign.bounded, "3 (thorough 5) grain sets x 5 call histories x 3 thread counts")]
