"""C07 - every peak is assigned to its best-fitting grain, whatever the order or threads."""
from verif.units import CUnit
import contracts  # noqa

LEVEL = "proof"
WALL_MS = 60000
TRUSTED = []
ASSUMPTIONS = ["|ubi.g| <= 2^51 for every peak, no NaN/Inf"]
EXPLANATION = "score_and_assign: per-peak postcondition, frame, DRF of the omp loop; contract-level lemma over grain sequences."


def units(ctx):
    return [CUnit("closest.c:score_and_assign")]
