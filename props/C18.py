"""C18 - saved peaks, parameters and grains read back as written (bounded run-time contracts)."""
import contracts  # noqa
from contracts import py_io

LEVEL = "other"
TRUSTED = ["printf/strtod, the file system, h5py"]
ASSUMPTIONS = ["bounded: the stated finite grid of titles, values and list lengths only"]
EXPLANATION = ("Round-trip postconditions evaluated on the real writers and readers (columnfile text and HDF5, parameter files, grain text / HDF5 / ubi "
               "files, sparse frames in HDF5 groups) on a stated grid; the FORMATS table is a closed term inspected completely.")


def units(ctx):
    return py_io.units()
