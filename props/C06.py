"""C06 - scoring and least-squares refinement kernels match their mathematical definition."""
from verif.units import CUnit, BoundedUnit
import contracts  # noqa

LEVEL = "other"
WALL_MS = 60000
TRUSTED = ["f2py marshalling of (ubi, gv, tol) to the C prototypes (array shapes from the F2PY_WRAPPER blocks)"]
ASSUMPTIONS = ["|ubi.g| <= 2^51 for every peak (domain of the MAGIC rounding idiom), no NaN/Inf in ubi, gv, tol"]
EXPLANATION = ("score / score_and_refine / refine_assigned / inverse3x3 / verify_rounding are verified function by function against "
               "spec functions written from the property text: count of peaks with drlv2 < tol^2, R = sum g h^T, H = sum h h^T as "
               "recursive sums (loop invariants), ubi' = inverse(R.inverse(H)) by the adjugate formula, unchanged input when a "
               "determinant vanishes. Bounded (not counted as proved): the python references indexing.calc_drlv2 / indexing.refine and the f2py "
               "wrappers of score / score_and_refine / refine_assigned against the same specification on simulated data (0 to all reflections, junk "
               "vectors, three tolerances, singular normal equations).")


def units(ctx):
    keys = ["closest.c:conv_double_to_int_safe", "closest.c:inverse3x3", "closest.c:verify_rounding", "closest.c:score",
            "closest.c:score_and_refine", "closest.c:refine_assigned"]
    from contracts import py_score
    return [CUnit(k) for k in keys] + [BoundedUnit("python-references-and-wrappers", py_score.bounded, "12 (thorough 80) simulated cases")]
