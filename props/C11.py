"""C11 - threshold labelling yields exactly the connected components (proofs + bounded stand-in)."""
import itertools
import numpy as np
from verif.units import CUnit, BoundedUnit
from verif.tunits import repo_module
import contracts  # noqa

LEVEL = "other"
WALL_MS = 60000
TRUSTED = ["the partition equality itself (two pixels share a label iff connected) is decided only by the bounded stand-in below"]
ASSUMPTIONS = []
EXPLANATION = ("Proved for all images (dense variant): memory safety incl. the realloc path of the disjoint set, forest invariant 1<=S[a]<=a preserved by "
               "dset_new/find/link/makeunion/compress, labels==0 <=> data<=threshold, final labels in 0..n, n returned. "
               "Bounded (never counted as proved): partition equality of dense / sparse / splat labelling against breadth-first search on "
               "every binary image of the stated sizes, 4- and 8-connectivity (dense), plus adversarial chains that force label merging.")


def bfs_labels(mask, con8):
    ns, nf = mask.shape
    lab = np.zeros(mask.shape, int)
    n = 0
    nb = [(-1, 0), (1, 0), (0, -1), (0, 1)] + ([(-1, -1), (-1, 1), (1, -1), (1, 1)] if con8 else [])
    for i in range(ns):
        for j in range(nf):
            if mask[i, j] and not lab[i, j]:
                n += 1
                st = [(i, j)]
                lab[i, j] = n
                while st:
                    a, b = st.pop()
                    for da, db in nb:
                        x, y = a + da, b + db
                        if 0 <= x < ns and 0 <= y < nf and mask[x, y] and not lab[x, y]:
                            lab[x, y] = n
                            st.append((x, y))
    return n, lab


def same_partition(l1, l2):
    m = {}
    r = {}
    for a, b in zip(l1.ravel(), l2.ravel()):
        if (a == 0) != (b == 0):
            return False
        if a == 0:
            continue
        if m.setdefault(a, b) != b or r.setdefault(b, a) != a:
            return False
    return True


def bounded(ctx):
    from verif import clib
    shapes = [(2, 2), (2, 3), (3, 3), (3, 4)] + ([(4, 4), (3, 6)] if ctx.tier == "thorough" else [])
    ev = dist = 0
    fails = []
    samples = []
    rng = np.random.RandomState(ctx.seed)
    cases = []
    for ns, nf in shapes:
        for bits in range(1 << (ns * nf)):
            cases.append(np.array([(bits >> k) & 1 for k in range(ns * nf)], np.uint8).reshape(ns, nf))
    # adversarial: zig-zag chains and combs that create many provisional labels which merge late
    for w in (9, 17, 33):
        z = np.zeros((4, w), np.uint8)
        for c in range(w):
            z[(0 if c % 4 == 0 else 1 if c % 4 in (1, 3) else 2), c] = 1
        cases.append(z)
        comb = np.zeros((5, w), np.uint8)
        comb[4, :] = 1
        comb[0:4, ::2] = 1
        cases.append(comb)
        cases.append(comb[::-1].copy())
    for _ in range(40 if ctx.tier == "quick" else 400):
        cases.append((rng.rand(rng.randint(2, 24), rng.randint(2, 24)) < rng.choice([0.3, 0.5, 0.7])).astype(np.uint8))
    # larger frames: long meandering components whose provisional labels merge through chains of unions
    for _ in range(24 if ctx.tier == "quick" else 120):
        cases.append((rng.rand(rng.randint(40, 130), rng.randint(40, 130)) < rng.choice([0.3, 0.35, 0.4, 0.5])).astype(np.uint8))
    # more than 16384 provisional labels: the label table is reallocated (isolated dots, and dots joined late by a last full row)
    dots = np.zeros((262, 262), np.uint8)
    dots[1::2, 1::2] = 1
    cases.append(dots)
    joined = dots.copy()
    joined[-1, :] = 1
    joined[1::2, 1] = 1
    cases.append(joined)
    cases.append((rng.rand(300, 520) < 0.14).astype(np.uint8))
    spf = repo_module("ImageD11.sparseframe")
    glue_budget = [400]
    rng.shuffle(cases)          # the glue budget then samples all families
    for mask in cases:
        ns, nf = mask.shape
        data = mask.astype(np.float32) * 2.0
        for con8 in (1, 0):
            n0, l0 = bfs_labels(mask, con8)
            n, lab = clib.connectedpixels(data, 1.0, con8)
            ev += 1
            ok = (n == n0) and same_partition(lab, l0) and lab.min() >= 0 and (lab.max() == n) and len(np.unique(lab[lab > 0])) == n
            if not ok:
                fails.append(dict(name="dense.con8=%d" % con8, mask=mask.tolist(), got_n=int(n), want_n=int(n0), labels=lab.tolist()))
        if mask.any():
            dist += 1
        n0, l0 = bfs_labels(mask, 1)
        ii, jj = np.nonzero(mask)
        # sparse variants get every pixel of the frame (also those below threshold) in sorted order
        ai, aj = np.indices(mask.shape)
        v = data.ravel()
        for nm, fn in (("sparse", lambda: clib.sparse_connectedpixels(v, ai.ravel(), aj.ravel(), 1.0)),
                       ("splat", lambda: clib.sparse_connectedpixels_splat(v, ai.ravel(), aj.ravel(), 1.0, ns, nf))):
            n, lab = fn()
            ev += 1
            lab2 = lab.reshape(mask.shape)
            ok = (n == n0) and same_partition(lab2 * mask, l0)
            if not ok:
                fails.append(dict(name=nm, mask=mask.tolist(), got_n=int(n), want_n=int(n0), labels=lab2.tolist()))
        # truly sparse input: only the pixels above threshold are stored (empty rows, gaps inside rows), and a variant with a random part of the
        # background stored as well
        if mask.any():
            keep = rng.rand(*mask.shape) < 0.3
            for tag, sel in (("only-set-pixels", mask > 0), ("set-pixels-and-some-background", (mask > 0) | keep)):
                si, sj = np.nonzero(sel)
                sv = data[si, sj]
                for nm, fn in (("sparse", lambda: clib.sparse_connectedpixels(sv, si, sj, 1.0)),
                               ("splat", lambda: clib.sparse_connectedpixels_splat(sv, si, sj, 1.0, ns, nf))):
                    n, lab = fn()
                    ev += 1
                    full = np.zeros(mask.shape, int)
                    full[si, sj] = lab
                    ok = (n == n0) and same_partition(full * mask, l0) and (full[mask == 0] == 0).all()
                    if not ok:
                        fails.append(dict(name="%s (%s)" % (nm, tag), mask=mask.tolist(), got_n=int(n), want_n=int(n0), labels=full.tolist()))
        # the python glue on a sparse_frame object (sparseframe.sparse_connected_pixels): same partition, nlabel stored in the frame
        if mask.any() and glue_budget[0] > 0 and mask.shape[0] < 65535:
            glue_budget[0] -= 1
            si, sj = np.nonzero(mask)
            fr = spf.sparse_frame(si, sj, mask.shape, itype=np.uint16)
            fr.set_pixels("intensity", data[si, sj].astype(np.float32), {})
            ng = spf.sparse_connected_pixels(fr, threshold=1.0)
            ev += 1
            full = np.zeros(mask.shape, int)
            full[si, sj] = fr.pixels["connectedpixels"]
            if not (ng == n0 and same_partition(full * mask, l0)):
                fails.append(dict(name="sparseframe.sparse_connected_pixels", mask=mask.tolist(), got_n=int(ng), want_n=int(n0)))
        if len(samples) < 3 and mask.sum() > 3:
            samples.append(dict(mask=mask.tolist(), n=int(n0)))
        if len(fails) > 5:
            break
    return dict(evaluations=ev, distinct_nontrivial=dist, samples=samples, failures=fails[:5],
                rule="all binary masks of shapes %s + zig-zag/comb chains + seeded random masks up to 24x24; non-trivial = mask with a set pixel" % shapes)


def units(ctx):
    keys = ["blobs.c:dset_initialise", "blobs.c:dset_new", "blobs.c:dset_find", "blobs.c:dset_link", "blobs.c:dset_makeunion",
            "blobs.c:dset_compress", "connectedpixels.c:connectedpixels", "sparse_image.c:sparse_connectedpixels"]
    return [CUnit(k) for k in keys] + [BoundedUnit("partition-vs-bfs", bounded, "all masks up to 3x4 (thorough 4x4, 3x6), chains, random up to 24x24, 24 (thorough 120) random frames up to 130x130, 3 frames with more than 16384 provisional labels; sparse variants on full frames and on truly sparse pixel lists")]
