"""C14 - sparse images round-trip and overlap counting is exact."""
from verif.units import CUnit, LemmaUnit
from contracts import specs
import contracts  # noqa
from contracts import py_sparse

LEVEL = "other"
WALL_MS = 60000
TRUSTED = ["f2py passes contiguous arrays of the declared shapes",
           "count lemmas (0 <= c(n) <= n - lo, monotone and 1-Lipschitz in n) are instantiated, their induction steps are proved in lemma:count"]
ASSUMPTIONS = ["images of at most 65535 x 65535 pixels"]
EXPLANATION = ("Proved for all images (tosparse_f32 / u16 / u32): the result is the number of selected pixels (recursive count spec), every entry "
               "is a selected pixel with its value attached, positions strictly increase in row-major order (hence sorted and duplicate free). "
               "sparse_is_sorted returns 0 exactly for strictly row-major sorted input. sparse_overlaps: every reported pair is a common pixel, every "
               "common pixel is reported (completeness of the two-pointer merge, by three invariants with an existential witness), indices "
               "strictly increase, tails are zeroed, count bounded. coverlaps: memory safety and count bounds. mask_to_coo (per-row counts, prefix sums, "
               "parallel fill): memory safety, data-race freedom, and on success nnz is the last prefix sum, every stored (row, column) is a mask pixel "
               "inside the image and the entries are strictly sorted row-major. Bounded (not counted as proved): "
               "the matrix entries of coverlaps, compress_duplicates and the python glue "
               "(from_data_mask / from_data_cut / to_dense / sort / overlaps_linear / overlaps_matrix) against dictionary and numpy oracles.")


def units(ctx):
    keys = ["sparse_image.c:tosparse_f32", "sparse_image.c:tosparse_u16", "sparse_image.c:tosparse_u32", "sparse_image.c:sparse_is_sorted",
            "sparse_image.c:sparse_overlaps", "sparse_image.c:coverlaps", "sparse_image.c:mask_to_coo"]
    return [CUnit(k) for k in keys] + [LemmaUnit("count", specs.count_lemmas)] + py_sparse.units()
