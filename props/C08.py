"""C08 - the indexer reports only genuine grains and finds all of them on ideal data: bounded stand-in only.

No per-function contract expresses 'finds every grain' (a heuristic search over a whole peak set with mutable indexer state), so nothing is
proved here.  The two sentences of the property are evaluated as a run-time postcondition of indexer.score_all_pairs on simulated data."""
import contextlib
import io
import logging
import numpy as np
from verif.units import BoundedUnit
from verif.tunits import repo_module

LEVEL = "other"
TRUSTED = []
ASSUMPTIONS = ["bounded only: the stated cells, grain counts, tolerances and seeds; nothing about the indexer is proved (its kernels are covered by C05/C06/C07)"]
EXPLANATION = ("Run-time postcondition of the real indexer (assigntorings / find / scorethem through score_all_pairs) on g-vectors simulated from random "
               "grains: every reported orientation indexes more than minpks of the supplied g-vectors within hkl_tol, is right-handed, has the cell's "
               "parameters, no two describe the same lattice (also with spurious and noisy peaks added); on noise-free data every simulated grain is "
               "reported exactly once up to an integer unimodular change of basis.")
CELLS = [([4.04] * 3 + [90, 90, 90], "F"), ([2.87] * 3 + [90, 90, 90], "I"), ([3.6] * 3 + [90, 90, 90], "P"), ([3.0, 3.0, 5.0, 90, 90, 120], "P"),
         ([4.6, 4.6, 2.95, 90, 90, 90], "P"), ([3.0, 4.0, 5.0, 90, 90, 90], "P"), ([5.1, 6.2, 7.3, 90, 100, 90], "P"), ([5.0, 5.0, 5.0, 80, 80, 80], "P")]


def rot(rng):
    q = rng.normal(size=4)
    q /= np.linalg.norm(q)
    a, b, c, d = q
    return np.array([[a*a+b*b-c*c-d*d, 2*(b*c-a*d), 2*(b*d+a*c)], [2*(b*c+a*d), a*a-b*b+c*c-d*d, 2*(c*d-a*b)],
                     [2*(b*d-a*c), 2*(c*d+a*b), a*a-b*b-c*c+d*d]])


def equiv(ubi, UB, tol=2e-3):
    M = ubi.dot(UB)
    return np.abs(M - np.round(M)).max() < tol and abs(abs(np.linalg.det(np.round(M))) - 1) < 1e-6


def bounded(ctx):
    from verif import extbuild
    extbuild.ensure_current()
    uc_mod = repo_module("ImageD11.unitcell")
    ix_mod = repo_module("ImageD11.indexing")
    logging.disable(logging.CRITICAL)
    rng = np.random.RandomState(ctx.seed)
    fails, ev, samples = [], 0, []
    counts = (1, 2, 4) if ctx.tier == "quick" else (1, 2, 3, 5, 8)
    try:
        for cell, sym in CELLS:
            for ng in counts:
                for noisy in (False, "all-pairs", True, 0.003, 0.006):
                    uc = uc_mod.unitcell(cell, sym)
                    dsmax = 2.6 / min(cell[:3])
                    h = np.array([x[1] for x in uc.gethkls(dsmax)], float)
                    Us = [rot(rng) for _ in range(ng)]
                    UBs = [U.dot(uc.B) for U in Us]
                    gv = np.concatenate([UB.dot(h.T).T for UB in UBs])
                    allpairs = noisy == "all-pairs"          # ideal data, cosine_tol < 0: every pair within the tolerance instead of the closest
                    if allpairs:
                        noisy = False
                    strong = noisy not in (False, True)      # noise comparable with the tolerance: only a part of each grain's peaks is within hkl_tol
                    if strong:
                        gv = gv + rng.normal(scale=noisy, size=gv.shape)
                    elif noisy:
                        # measurement noise well inside hkl_tol and 30% spurious vectors with the lengths of real rings
                        gv = gv + rng.normal(scale=2e-4, size=gv.shape)
                        nsp = max(3, len(gv) * 3 // 10)
                        d = rng.normal(size=(nsp, 3))
                        d /= np.linalg.norm(d, axis=1)[:, None]
                        gv = np.concatenate([gv, d * np.linalg.norm(gv[rng.randint(len(gv), size=nsp)], axis=1)[:, None]])
                    gv = gv[rng.permutation(len(gv))]
                    uc.makerings(dsmax * 1.05, 0.001)
                    minpks = int((0.5 if strong else 0.8) * len(h))
                    hkl_tol = 0.01 if not noisy else 0.02
                    with contextlib.redirect_stdout(io.StringIO()), contextlib.redirect_stderr(io.StringIO()):
                        ix = ix_mod.indexer(unitcell=uc, gv=gv, wavelength=0.3, minpks=minpks, hkl_tol=hkl_tol,
                                            cosine_tol=(-0.002 if allpairs else 0.002), ds_tol=0.005, max_grains=100)
                        ix.score_all_pairs()
                    ubis = [np.asarray(u) for u in ix.ubis]
                    ev += 1
                    tag = dict(cell=cell, sym=sym, grains=ng, noise=(float(noisy) if strong else ("2e-4 + spurious" if noisy else 0)), seed=ctx.seed,
                               cosine_tol=(-0.002 if allpairs else 0.002),
                               U=[u.tolist() for u in Us])
                    rt, at = (2e-2, 1.5) if strong else (5e-3, 0.3)
                    for k, u in enumerate(ubis):
                        hk = u.dot(gv.T)
                        n = int((np.abs(hk - np.round(hk)).max(axis=0) < hkl_tol).sum())
                        cp = ix_mod.ubitocellpars(u)
                        if n <= minpks:
                            fails.append(dict(name="a reported orientation indexes only %d peaks (minpks %d)" % (n, minpks), ubi=u.tolist(), **tag))
                        if np.linalg.det(u) <= 0:
                            fails.append(dict(name="a reported orientation is left-handed", ubi=u.tolist(), **tag))
                        if not (np.allclose(cp[:3], cell[:3], rtol=rt) and np.allclose(cp[3:], cell[3:], atol=at)):
                            fails.append(dict(name="a reported orientation has other cell parameters", cellpars=[float(x) for x in cp], **tag))
                    for a in range(len(ubis)):
                        for b in range(a + 1, len(ubis)):
                            if equiv(ubis[a], np.linalg.inv(ubis[b]), tol=0.05 if strong else 0.02):
                                fails.append(dict(name="two reported orientations describe the same lattice", **tag))
                    if not noisy:
                        found = [sum(bool(equiv(u, UB)) for u in ubis) for UB in UBs]
                        if any(f != 1 for f in found) or len(ubis) != ng:
                            fails.append(dict(name="noise-free data: simulated grains reported %s times, %d orientations for %d grains" % (found, len(ubis), ng), **tag))
                    if len(samples) < 3:
                        samples.append(dict(cell=cell, sym=sym, grains=ng, peaks=len(gv), reported=len(ubis)))
    finally:
        logging.disable(logging.NOTSET)
    return dict(evaluations=ev, distinct_nontrivial=ev, samples=samples, failures=fails[:12],
                rule="8 cells (cubic F/I/P, hexagonal, tetragonal, orthorhombic, monoclinic, rhombohedral) x %s grains x {ideal, ideal with cosine_tol -0.002 (all pairs within tolerance), noisy + 30%% spurious "
                     "peaks, gaussian noise 0.003 and 0.006 on g with hkl_tol 0.02 and minpks = half a grain}; all ring pairs searched; minpks = 80%% of a grain's reflections" % (counts,))


def units(ctx):
    return [BoundedUnit("indexer-soundness-and-completeness", bounded, "8 cells x 3 (thorough 5) grain counts x {ideal, noisy with spurious peaks, two strong noise levels}")]
