"""C17 - columnfile stays rectangular and self-consistent under any operation sequence (bounded run-time contracts)."""
import contracts  # noqa
from contracts import py_columnfile

LEVEL = "other"
TRUSTED = []
ASSUMPTIONS = ["bounded: histories up to the stated depth only; CPython object semantics (name-mangled attributes, numpy views) are not modelled, "
               "the contracts are evaluated on the real class"]
EXPLANATION = ("Class invariant (titles/ncols/nrows consistent, every column nrows long, attribute / item / getcolumn views are the same data - probed "
               "by writing through one view) and per-operation postconditions (same mask / permutation applied to every column, copies share "
               "no storage) are evaluated on the real columnfile class after every step of every operation sequence up to the bound.")


def units(ctx):
    return py_columnfile.units()
