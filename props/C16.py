"""C16 - symmetry groups are proper point groups; orientation reduction is canonical."""
import contracts  # noqa
from contracts import py_symu

LEVEL = "proof"
WALL_MS = 90000
TRUSTED = ["np.dot / np.trace / np.where on object arrays compute the real functions; group elements are exactly the integer matrices read from the objects"]
ASSUMPTIONS = ["canonicity and idempotence of find_uniq_u are proved under the hypothesis that the maximal trace is attained once (see the known finding for ties)",
               "find_uniq_hkls: |h|,|k|,|l| <= 160 so that every image stays below the documented hmax; one generic reflection (np.where is element-wise)"]
EXPLANATION = ("The ten groups are closed terms: closure, identity, inverses, integrality, determinant +1 and order are decided exhaustively on the real "
               "objects; o.G.o^T = G is proved for every operator and every conforming (symbolic) cell. find_uniq_u is executed symbolically from its "
               "python AST with the loop over the real group unrolled and branches merged: result in the orbit, trace maximal, equal for every member of "
               "the orbit and idempotent when there is no tie. hklmax injective on |h|<500; find_uniq_hkls result in the orbit and hklmax-maximal.")


def units(ctx):
    return py_symu.units()
