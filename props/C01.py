"""C01 - pixel-to-g-vector geometry agrees across Python, C and numba implementations."""
from verif.units import CUnit
import contracts  # noqa
from contracts import py_transform

LEVEL = "proof"
WALL_MS = 60000
TRUSTED = ["trig facts T1-T4 of verif/triglemmas.py (sin^2+cos^2=1, sin/cos of atan2, half angle, sign of the half angle for tth in [0,pi]) instantiated per occurring argument",
           "f2py marshalling of array arguments to the C prototypes; numba compiles the py_func text that is traced",
           "numpy dot / broadcasting / slicing on object arrays computes the same real function as on float arrays",
           "pi: C's PI macro and numpy's radians/degrees use the same constant (the double nearest to pi), modelled as that rational"]
ASSUMPTIONS = ["ray not of zero length, (dy,dz) != (0,0) for the angle form of the k-vector, wavelength != 0", "one generic peak (n=1): every numpy operation along the peak axis is element-wise"]
EXPLANATION = ("One reference geometry (contracts/geom.py, written from the documented formulas). C kernels compute_xlylzl / compute_gv / "
               "compute_geometry are verified against it with loop invariants and proof steps; the python reference functions of transform.py and the "
               "numba copies in point_by_point.py are executed symbolically path by path and compared with it; Ctransform and "
               "columnfile.updateGeometry (fast and slow) are traced with callees replaced by their contracts.")


def units(ctx):
    cu = [CUnit("cdiffraction.c:compute_xlylzl"), CUnit("cdiffraction.c:compute_gv"), CUnit("cdiffraction.c:compute_geometry")]
    return cu + py_transform.units()
