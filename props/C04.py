"""C04 - UBI, UB, U, B, metric tensor and cell parameters are mutually consistent."""
from verif.units import BoundedUnit
import contracts  # noqa
from contracts import py_cell

LEVEL = "other"
WALL_MS = 60000
TRUSTED = ["numpy.linalg.inv of a 3x3 is the adjugate formula (assumed contract, shared by tracer and reference)",
           "guvectorize applies the extracted kernel per element of the leading dimensions"]
ASSUMPTIONS = ["NaN is outside the symbolic model: the NaN branches of the map functions are checked only by the bounded stand-in"]
EXPLANATION = ("Proved for all inputs: every copy of the Busing-Levy B formula (unitcell, tensor_map.unitcell_to_b, point_by_point.ubi_and_ucell_to_u, "
               "the grain object), of 'cell from metric tensor' (grain.unitcell, tensor_map.mt_to_unitcell, point_by_point.ubi_to_unitcell, "
               "indexing.ubitocellpars), of the metric tensor / inverse and of U = (B.ubi)^T equals one reference written from the documented formulas. "
               "Bounded (not counted as proved): the algebraic consistency itself (B^T B = G*, U orthogonal with det +1, U.B = inv(UBI), round trip "
               "cell+rotation -> UBI -> cell+rotation, indexing.ubitoB/ubitoU/ubitoRod, NaN voxels) on seeded random cells and rotations: the "
               "Busing-Levy ladder needs lemmas about reciprocal angles that were not brought under the solver.")


def units(ctx):
    return py_cell.units_c04() + [BoundedUnit("consistency-on-random-cells", py_cell.b_c04_numeric, "60 (thorough 600) random cells x rotations")]
