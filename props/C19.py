"""C19 - scanning geometry is self-consistent: conversions proved, reconstruction clauses by a bounded stand-in."""
import contracts  # noqa
from contracts import py_geometry

LEVEL = "other"
WALL_MS = 60000
TRUSTED = ["sin^2+cos^2 = 1 instantiated per occurring angle", "numpy scalar/ufunc semantics on symbolic scalars (object dispatch) equals the float semantics",
           "np.round = round-half-even, astype(int) truncates"]
ASSUMPTIONS = ["ystep != 0", "recon_shape entries are integers (// is floor division)",
               "the reconstruction clauses (point grain within 1.5 px, linearity, worker-count and ROI independence of iradon) are decided by the "
               "bounded stand-in only: FFT filtering, interpolation and python threads are outside the engines"]
EXPLANATION = ("every conversion function of sinograms/geometry.py is executed symbolically and the compositions are proved to be identities; "
               "in-beam dty makes lab y zero; sincos/degree variants agree; dty<->dtyi round-trips on integers; mask helpers and "
               "point_by_point.get_voxel_idx are the stated compositions. Bounded (never counted as proved): the real iradon / run_iradon on random "
               "sinograms for 5 worker counts, 3 ROI masks and a linear combination, and point-like grains built with the module's own functions "
               "(even/odd heights, half and full turns, off-centre rotation axis) reconstruct within 1.5 px of geometry.sample_to_recon.")


def units(ctx):
    from verif.units import BoundedUnit
    from contracts import py_recon
    return py_geometry.units() + py_geometry.pbp_units() + [
        BoundedUnit("iradon-workers-roi-linearity-point-grain", py_recon.bounded_recon,
                    "random sinograms x 5 worker counts x 3 ROI masks, one linear combination each; 24 (thorough 100) point grains")]
