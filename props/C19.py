"""C19 - scanning geometry is self-consistent (conversions only; the reconstruction clauses are not applicable)."""
import contracts  # noqa
from contracts import py_geometry

LEVEL = "proof"
WALL_MS = 60000
TRUSTED = ["sin^2+cos^2 = 1 instantiated per occurring angle", "numpy scalar/ufunc semantics on symbolic scalars (object dispatch) equals the float semantics",
           "np.round = round-half-even, astype(int) truncates"]
ASSUMPTIONS = ["ystep != 0", "recon_shape entries are integers (// is floor division)",
               "NOT claimed: 'reconstructs within 1.5 pixels', linearity, worker-count and ROI independence of iradon "
               "(FFT filtering, interpolation, python threads: no contract within reach decides them; see DESIGN.md section 7)"]
EXPLANATION = ("every conversion function of sinograms/geometry.py is executed symbolically and the compositions are proved to be identities; "
               "in-beam dty makes lab y zero; sincos/degree variants agree; dty<->dtyi round-trips on integers; mask helpers and "
               "point_by_point.get_voxel_idx are the stated compositions.")


def units(ctx):
    return py_geometry.units() + py_geometry.pbp_units()
