"""C09 - grain refinement recovers orientation, cell and position from simulated data: bounded stand-in only.

Convergence of a Nelder-Mead optimiser to a tolerance is not a partial-correctness property of any function, so nothing is proved here; the
property is evaluated as a run-time postcondition of the real refinegrains work flow (the calls of scripts/makemap.py) on forward-simulated peaks."""
import contextlib
import io
import os
import shutil
import numpy as np
from verif.units import BoundedUnit
from verif.tunits import repo_module

LEVEL = "other"
TRUSTED = ["the forward simulation uses transform.uncompute_g_vectors / compute_xyz_from_tth_eta of the same repository (their mutual consistency with the "
           "forward functions is C01/C02)"]
ASSUMPTIONS = ["bounded only: the stated geometry settings, grain counts and seeds; nothing about refinegrains is proved (its kernels are covered by C01/C06/C07)"]
EXPLANATION = ("Run-time postcondition of the real refinegrains (loadparameters / loadfiltered / readubis / generate_grains / refinepositions x3 / savegrains "
               "/ writefile) on peaks forward-simulated from known strained, translated grains: starting from orientations rotated by 0.05 degrees and "
               "positions off by up to 20 um, every grain's UBI is recovered to 1e-5 (relative) and its translation to 1 um, every peak is assigned to the "
               "grain that produced it, and the written peak file carries the simulated integer hkl.")
TOL_UBI, TOL_T = 1e-5, 1.0


def rot(rng):
    q = rng.normal(size=4)
    q /= np.linalg.norm(q)
    a, b, c, d = q
    return np.array([[a*a+b*b-c*c-d*d, 2*(b*c-a*d), 2*(b*d+a*c)], [2*(b*c+a*d), a*a-b*b+c*c-d*d, 2*(c*d-a*b)],
                     [2*(b*d-a*c), 2*(c*d+a*b), a*a-b*b-c*c+d*d]])


def small_rot(rng, deg):
    ax = rng.normal(size=3)
    ax /= np.linalg.norm(ax)
    a = np.radians(deg)
    K = np.array([[0, -ax[2], ax[1]], [ax[2], 0, -ax[0]], [-ax[1], ax[0], 0]])
    return np.eye(3) + np.sin(a) * K + (1 - np.cos(a)) * K.dot(K)


def simulate(M, rng, pars, ngrains, cell, sym):
    uc = M["unitcell"].unitcell(cell, sym)
    lam = pars["wavelength"]
    dsmax = 2 * np.sin(np.radians(10.)) / lam
    hkls = np.array([h for d, h in uc.gethkls(dsmax)], float)
    rows, grains = [], []
    det = {k: v for k, v in pars.items() if k not in ("t_x", "t_y", "t_z")}
    for gi in range(ngrains):
        eps = np.eye(3) + rng.uniform(-5e-3, 5e-3, (3, 3))
        UB = rot(rng).dot((eps + eps.T) / 2).dot(uc.B)
        t = rng.uniform(-500, 500, 3)
        g = UB.dot(hkls.T)
        tth, (e1, e2), (o1, o2) = M["transform"].uncompute_g_vectors(g, lam, wedge=pars["wedge"], chi=pars["chi"])
        for eta, om in ((e1, o1), (e2, o2)):
            ok = tth > 0            # no solution: the function returns zeros
            fc, sc = M["transform"].compute_xyz_from_tth_eta(tth[ok], eta[ok], om[ok], t_x=t[0], t_y=t[1], t_z=t[2], **det)
            for k, (f, s, o) in enumerate(zip(fc, sc, om[ok])):
                if 0 < f < 2048 and 0 < s < 2048:
                    rows.append((s, f, o * pars["omegasign"], gi) + tuple(hkls[ok][k]))
        grains.append((np.linalg.inv(UB), t))
    return np.array(rows), grains


def one_case(M, workdir, seed, ngrains=2, wedge=0., chi=0., omegasign=1, tilt=(0.002, -0.003, 0.004), flip=(1, 0, 0, 1), omfloat=True,
             cell=(4.04, 4.04, 4.04, 90, 90, 90), sym="F", start_translations=True):
    rng = np.random.RandomState(seed)
    pars = dict(distance=150000., y_center=1020.3, z_center=1030.7, y_size=50., z_size=50., tilt_x=tilt[0], tilt_y=tilt[1], tilt_z=tilt[2],
                o11=flip[0], o12=flip[1], o21=flip[2], o22=flip[3], wedge=wedge, chi=chi, omegasign=omegasign, wavelength=0.3, t_x=0., t_y=0., t_z=0.)
    rows, grains = simulate(M, rng, pars, ngrains, list(cell), sym)
    p = M["parameters"].parameters(**pars)
    p.parameters.update({"cell__a": cell[0], "cell__b": cell[1], "cell__c": cell[2], "cell_alpha": cell[3], "cell_beta": cell[4], "cell_gamma": cell[5],
                         "cell_lattice_[P,A,B,C,I,F,R]": sym, "fit_tolerance": 0.05})
    par, flt, start, out = [os.path.join(workdir, n) for n in ("sim.par", "sim.flt", "start.map", "out.map")]
    p.saveparameters(par)
    rows = rows[rng.permutation(len(rows))]
    with open(flt, "w") as f:
        f.write("#  sc  fc  omega  Number_of_pixels  avg_intensity  sum_intensity\n")
        for r in rows:
            f.write("%.6f %.6f %.6f 10 100.0 1000.0\n" % (r[0], r[1], r[2]))
    # start grains: perturbed orientation and a position off by up to 20 um, or (the file an indexer writes) no translation at all
    st = [M["grain"].grain(ubi.dot(small_rot(rng, 0.05)), translation=(t + rng.uniform(-20, 20, 3) if start_translations else None))
          for ubi, t in grains]
    M["grain"].write_grain_file(start, st)
    with contextlib.redirect_stdout(io.StringIO()), contextlib.redirect_stderr(io.StringIO()):
        o = M["refinegrains"].refinegrains(tolerance=0.05, OmFloat=omfloat, OmSlop=0.25)
        o.loadparameters(par)
        o.loadfiltered(flt)
        o.readubis(start)
        o.generate_grains()
        for _ in range(3):
            o.refinepositions()
        o.savegrains(out, sort_npks=False)
        o.scandata[flt].writefile(flt + ".new")
        res = M["grain"].read_grain_file(out)
        col = M["columnfile"].columnfile(flt + ".new")
    problems = []
    for k, ((ubi, t), g) in enumerate(zip(grains, res)):
        eu = float(np.abs(g.ubi - ubi).max() / np.abs(ubi).max())
        et = float(np.abs(np.asarray(g.translation) - t).max())
        if eu > TOL_UBI:
            problems.append("grain %d: UBI recovered only to %.2g (relative)" % (k, eu))
        if et > TOL_T:
            problems.append("grain %d: translation off by %.3g um" % (k, et))
    if len(res) != len(grains):
        problems.append("%d grains written for %d simulated" % (len(res), len(grains)))
    nl = int((col.labels.astype(int) != rows[:, 3].astype(int)).sum())
    if nl:
        problems.append("%d of %d peaks not assigned to the grain that produced them" % (nl, len(rows)))
    nh = int((~((col.h == rows[:, 4]) & (col.k == rows[:, 5]) & (col.l == rows[:, 6]))).sum())
    if nh:
        problems.append("%d of %d peaks carry another hkl than the simulated one in the written file" % (nh, len(rows)))
    return len(rows), problems


# omega is floated by default (the default of makemap); every geometry setting is run with omega floated, a few also with omega as observed
CASES_QUICK = [dict(), dict(wedge=5.), dict(chi=3.), dict(omegasign=-1), dict(wedge=-4., chi=2., omegasign=-1), dict(flip=(-1, 0, 0, 1)),
               dict(flip=(0, 1, -1, 0), omegasign=-1), dict(omfloat=False), dict(omfloat=False, omegasign=-1, wedge=3.), dict(ngrains=4),
               dict(ngrains=1, wedge=2., tilt=(0.01, 0.02, -0.015)), dict(ngrains=1, omegasign=-1),
               dict(cell=(3.0, 3.0, 5.0, 90, 90, 120), sym="P", ngrains=2, omegasign=-1, wedge=3.),
               dict(ngrains=3, start_translations=False), dict(ngrains=2, start_translations=False, omfloat=False, wedge=-2., omegasign=-1)]


def bounded(ctx):
    from verif import extbuild
    extbuild.ensure_current()
    M = {n: repo_module("ImageD11." + n) for n in ("unitcell", "transform", "refinegrains", "grain", "columnfile", "parameters")}
    here = os.path.dirname(os.path.dirname(os.path.abspath(__file__)))
    workdir = os.path.join(here, "build", "c09_%d" % os.getpid())
    os.makedirs(workdir, exist_ok=True)
    fails, ev, samples = [], 0, []
    cases = list(CASES_QUICK)
    if ctx.tier == "thorough":
        cases = cases + [dict(c, ngrains=5) for c in CASES_QUICK[:7]] + [dict(c, omfloat=False) for c in CASES_QUICK[1:7]]
    try:
        for k, c in enumerate(cases):
            for rep in range(1 if ctx.tier == "quick" else 2):
                ev += 1
                try:
                    n, problems = one_case(M, workdir, ctx.seed + 17 * k + rep, **c)
                except Exception as e:
                    n, problems = 0, ["the work flow raised %s: %s" % (type(e).__name__, str(e)[:120])]
                for pr in problems[:2]:
                    fails.append(dict(name=pr, settings={kk: (list(v) if isinstance(v, tuple) else v) for kk, v in c.items()}, seed=ctx.seed + 17 * k + rep))
                if len(samples) < 3:
                    samples.append(dict(settings=str(c), peaks=n))
    finally:
        shutil.rmtree(workdir, ignore_errors=True)
    return dict(evaluations=ev, distinct_nontrivial=ev, samples=samples, failures=fails[:12],
                rule="%d geometry / grain settings (wedge, chi, omega sign, detector flips and tilts, omega floated, 1-4 (thorough 5) grains, cubic F and "
                     "hexagonal cells), strain up to 5e-3, positions within +-500 um" % len(cases))


def units(ctx):
    return [BoundedUnit("simulate-assign-refine-save", bounded, "15 (thorough 28) settings x 1 (thorough 2) seeds")]
