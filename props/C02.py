"""C02 - g-vectors obey Bragg/Ewald laws and the diffraction geometry is invertible."""
from verif.units import CUnit, LemmaUnit
import contracts  # noqa
from contracts import py_bragg, py_transform

LEVEL = "other"
WALL_MS = 60000
TRUSTED = ["trig facts T1-T5 (verif/triglemmas.py and the angle-addition instance in lemma omega_rotates_g_about_axis)"]
ASSUMPTIONS = ["wavelength != 0, ray of non-zero length"]
EXPLANATION = ("Proved: |k|^2 = |g|^2 = 4 sin^2(theta)/lambda^2 for the python reference (all wedge/chi branches, any omega and omega sign) and for "
               "the reference geometry that compute_gv / compute_geometry are proved equal to (C01 units repeated here); g(omega+delta) = Rz(delta)^T g(omega). "
               "Bounded (not counted as proved): detector round trip compute_xyz_from_tth_eta o compute_tth_eta and the two uncompute_g_vectors "
               "solutions, on seeded grids - the asin/atan2/angmod case analysis of gv_general.g_to_k was not brought under contract.")


def units(ctx):
    return [CUnit("cdiffraction.c:compute_gv"), CUnit("cdiffraction.c:compute_geometry"),
            LemmaUnit("rotation_preserves_norm", py_transform.u_norm_lemma)] + py_bragg.units()
