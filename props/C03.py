"""C03 - reflection lists are complete, sound and correctly grouped into rings."""
import contracts  # noqa
from contracts import py_unitcell

LEVEL = "other"
WALL_MS = 60000
TRUSTED = ["numpy.linalg.inv = adjugate formula; python % on integers is floor-modulo"]
ASSUMPTIONS = []
EXPLANATION = ("Proved for all integers h,k,l: each centring rule of the outif table equals the tabulated systematic absence. Proved: ds(hkl)^2 = hkl.gi.hkl and "
               "g.gi = det(g).adj/det identity (gi inverse of the metric). makerings is executed symbolically on 5 peaks with symbolic ascending d* "
               "(all tolerance patterns): partition, ascending ring d*, members within tol of the ring start. Bounded (not counted as proved): "
               "gethkls complete/sound/duplicate-free and ring structure against brute-force enumeration on 14 cells x several limits - the triple "
               "sweep loop of gethkls was not brought under loop invariants.")


def units(ctx):
    return py_unitcell.units()
