"""C15 - N-D peak merging equals graph connected components on any schedule (bounded stand-ins only so far)."""
import contracts  # noqa
from contracts import py_props

LEVEL = "other"
TRUSTED = []
ASSUMPTIONS = ["bounded: nothing here is proved for all graphs or all interleavings; the stable per-cell invariant of DESIGN.md section 5 (C15) "
               "was not brought under the solver"]
EXPLANATION = ("Run-time contracts on the real numba functions: find_ND_labels vs a union-find reference (labels exactly 0..n-1, same partition) on "
               "degenerate and random overlap graphs for several numba thread counts; numbapkmerge / pk2dmerge vs numpy.bincount sums and "
               "intensity-weighted means, with and without per-frame scale factors, with very many members per merged peak.")


def units(ctx):
    return py_props.units()
