"""symtrace (engine T): run the *real* numpy functions of /repo on symbolic scalars.

The function object imported from $REPO is executed by CPython; its module-global `np` / `math` (and, where
needed, `float`) are rebound *in the verification process only* to shims that build object arrays of
symbolic scalars.  Arithmetic builds z3 terms over the reals; elementary functions are the shared
uninterpreted symbols of verif.smt with their facts instantiated per occurring argument; comparisons
return symbolic booleans whose truth value is chosen by a path scheduler, and the function is re-executed
once per feasible path.  The returned terms (and in-place writes to argument arrays) are the VCs' left-hand sides.

What the trace drops: dtype (float32/float64 are both R), logging/print, side effects other than the
returned value and writes to argument arrays.  numpy's dot / broadcasting on object arrays is assumed to
compute the same real function as on float arrays (cross-checked concretely by `concrete_check`).
"""
import contextlib
import math
import types
from fractions import Fraction
import numpy as _np
import z3
from . import smt

PIQ = Fraction(math.pi)


class PathLimit(Exception):
    pass


class Unsupported(Exception):
    pass


class Tracer:
    current = None

    def __init__(self, max_paths=64):
        self.max_paths = max_paths
        self.facts = []          # instantiated facts about elementary functions
        self.fact_keys = set()
        self.decisions = []      # decisions of the current run: (cond term, bool)
        self.prefix = []         # forced decisions for this run
        self.work = []
        self.pos = 0
        self.assume = []         # global assumptions (preconditions)
        self.used_np = set()

    def add_fact(self, f):
        k = f.sexpr()
        if k not in self.fact_keys:
            self.fact_keys.add(k)
            self.facts.append(f)

    def feasible(self, conds):
        s = z3.Solver()
        s.set("timeout", 3000)
        for a in self.assume:
            s.add(a)
        for c in conds:
            s.add(c)
        return s.check() != z3.unsat

    def decide(self, cond):
        cs = z3.simplify(cond)
        if z3.is_true(cs):
            return True
        if z3.is_false(cs):
            return False
        if self.pos < len(self.prefix):
            term, val = self.prefix[self.pos]
            self.pos += 1
            self.decisions.append((cond, val))
            return val
        pc = [c if v else z3.Not(c) for c, v in self.decisions]
        t_ok = self.feasible(pc + [cond])
        f_ok = self.feasible(pc + [z3.Not(cond)])
        if t_ok and f_ok:
            self.work.append(list(self.decisions) + [(cond, False)])
            val = True
        elif t_ok:
            val = True
        elif f_ok:
            val = False
        else:
            val = True
        self.decisions.append((cond, val))
        self.pos += 1
        return val

    def run(self, fn, make_args):
        """returns [(path condition list, result)]; make_args() builds fresh argument objects per run"""
        out = []
        self.work = [[]]
        n = 0
        while self.work:
            self.prefix = self.work.pop()
            self.decisions = []
            self.pos = 0
            n += 1
            if n > self.max_paths:
                raise PathLimit("more than %d paths" % self.max_paths)
            Tracer.current = self
            try:
                args, kwargs = make_args()
                res = fn(*args, **kwargs)
            finally:
                Tracer.current = None
            pc = [c if v else z3.Not(c) for c, v in self.decisions]
            out.append((pc, res, args, kwargs))
        return out


def _t(x):
    """python / numpy number or S -> z3 arithmetic term"""
    if isinstance(x, S):
        return x.t
    if z3.is_expr(x):
        return x
    if isinstance(x, SB):
        return z3.If(x.b, z3.IntVal(1), z3.IntVal(0))
    if isinstance(x, (bool, _np.bool_)):
        return z3.IntVal(int(x))
    if isinstance(x, (int, _np.integer)):
        return z3.IntVal(int(x))
    if isinstance(x, (float, _np.floating)):
        fr = Fraction(float(x))
        return z3.RealVal(str(fr)) if fr.denominator != 1 else z3.RealVal(fr.numerator)
    if isinstance(x, Fraction):
        return z3.RealVal(str(x))
    raise Unsupported("cannot make a term of %r" % (type(x),))


def _r(x):
    return smt.real(_t(x))


class SB:
    """symbolic boolean"""
    __array_priority__ = 1000

    def __init__(self, b):
        self.b = b

    def __bool__(self):
        tr = Tracer.current
        if tr is None:
            raise Unsupported("symbolic truth value outside a trace")
        return tr.decide(self.b)

    def __and__(self, o):
        return SB(z3.And(self.b, _b(o)))

    __rand__ = __and__

    def __or__(self, o):
        return SB(z3.Or(self.b, _b(o)))

    __ror__ = __or__

    def __invert__(self):
        return SB(z3.Not(self.b))

    def _s(self):
        return S(z3.If(self.b, z3.IntVal(1), z3.IntVal(0)))

    def __add__(self, o):
        return self._s() + o

    __radd__ = __add__

    def __mul__(self, o):
        return self._s() * o

    __rmul__ = __mul__

    def __eq__(self, o):
        return SB(self.b == _b(o))

    def __ne__(self, o):
        return SB(self.b != _b(o))

    __hash__ = None


def _b(x):
    if isinstance(x, SB):
        return x.b
    if isinstance(x, (bool, _np.bool_)):
        return z3.BoolVal(bool(x))
    if isinstance(x, S):
        return x.t != 0
    raise Unsupported("boolean of %r" % type(x))


def _arr(o):
    return isinstance(o, _np.ndarray)


class S:
    """symbolic real/integer scalar"""
    __array_priority__ = 1000
    __slots__ = ("t",)

    def __init__(self, t):
        self.t = t if z3.is_expr(t) else _t(t)

    # arithmetic ---------------------------------------------------------
    def _bin(self, o, f, rev=False):
        if _arr(o):
            out = _np.empty(o.shape, dtype=object)
            for idx in _np.ndindex(*o.shape):
                out[idx] = self._bin(o[idx], f, rev)
            return out
        a, b = self.t, _t(o)
        if a.sort() != b.sort():
            a, b = smt.real(a), smt.real(b)
        return S(f(b, a) if rev else f(a, b))

    def __add__(self, o):
        return self._bin(o, lambda a, b: a + b)

    def __radd__(self, o):
        return self._bin(o, lambda a, b: a + b, True)

    def __sub__(self, o):
        return self._bin(o, lambda a, b: a - b)

    def __rsub__(self, o):
        return self._bin(o, lambda a, b: a - b, True)

    def __mul__(self, o):
        return self._bin(o, lambda a, b: a * b)

    def __rmul__(self, o):
        return self._bin(o, lambda a, b: a * b, True)

    def __truediv__(self, o):
        return self._bin(o, lambda a, b: smt.real(a) / smt.real(b))

    def __rtruediv__(self, o):
        return self._bin(o, lambda a, b: smt.real(a) / smt.real(b), True)

    def __floordiv__(self, o):
        a, b = self.t, _t(o)
        if a.sort() == smt.I and b.sort() == smt.I:
            return S(smt.pyfloordiv(a, b))
        return S(z3.ToReal(z3.ToInt(smt.real(a) / smt.real(b))))

    def __mod__(self, o):
        a, b = self.t, _t(o)
        if a.sort() == smt.I and b.sort() == smt.I:
            return S(smt.pymod(a, b))
        q = z3.ToReal(z3.ToInt(smt.real(a) / smt.real(b)))
        return S(smt.real(a) - q * smt.real(b))

    def __neg__(self):
        return S(-self.t)

    def __pos__(self):
        return self

    def __abs__(self):
        return S(z3.If(self.t >= 0, self.t, -self.t))

    def __pow__(self, n):
        if isinstance(n, (int, _np.integer)) and 0 <= int(n) <= 8:
            r = S(z3.RealVal(1))
            for _ in range(int(n)):
                r = r * self
            return r
        if isinstance(n, float) and n == 0.5:
            return self.sqrt()
        raise Unsupported("power %r" % (n,))

    # comparisons --------------------------------------------------------
    def _cmp(self, o, f):
        if _arr(o):
            out = _np.empty(o.shape, dtype=object)
            for idx in _np.ndindex(*o.shape):
                out[idx] = self._cmp(o[idx], f)
            return out
        a, b = self.t, _t(o)
        if a.sort() != b.sort():
            a, b = smt.real(a), smt.real(b)
        return SB(f(a, b))

    def __lt__(self, o):
        return self._cmp(o, lambda a, b: a < b)

    def __le__(self, o):
        return self._cmp(o, lambda a, b: a <= b)

    def __gt__(self, o):
        return self._cmp(o, lambda a, b: a > b)

    def __ge__(self, o):
        return self._cmp(o, lambda a, b: a >= b)

    def __eq__(self, o):
        if o is None:
            return False
        return self._cmp(o, lambda a, b: a == b)

    def __ne__(self, o):
        if o is None:
            return True
        return self._cmp(o, lambda a, b: a != b)

    def __hash__(self):
        return id(self)

    def __bool__(self):
        return bool(SB(self.t != 0))

    def __float__(self):
        v = z3.simplify(self.t)
        if z3.is_int_value(v):
            return float(v.as_long())
        if z3.is_rational_value(v):
            return v.numerator_as_long() / v.denominator_as_long()
        raise Unsupported("float() of a symbolic value (dtype conversion inside the traced function)")

    def __int__(self):
        raise Unsupported("int() of a symbolic value")

    def __repr__(self):
        return "S(%s)" % str(self.t)[:60]

    # elementary functions (numpy's object loops call these methods) -----
    def _fact(self, f):
        tr = Tracer.current
        if tr is not None:
            tr.add_fact(f)

    def sin(self):
        from . import triglemmas
        x = z3.simplify(smt.real(self.t))
        for f in triglemmas.facts_for_angle(x):
            self._fact(f)
        return S(smt.sin_f(x))

    def cos(self):
        from . import triglemmas
        x = z3.simplify(smt.real(self.t))
        for f in triglemmas.facts_for_angle(x):
            self._fact(f)
        return S(smt.cos_f(x))

    def tan(self):
        return self.sin() / self.cos()

    def sqrt(self):
        x = smt.real(self.t)
        r = smt.sqrt_f(x)
        self._fact(z3.Implies(x >= 0, z3.And(r >= 0, r * r == x)))
        self._fact(z3.Implies(x > 0, r > 0))
        return S(r)

    def arctan2(self, o):
        return S(smt.atan2_f(z3.simplify(smt.real(self.t)), z3.simplify(_r(o))))

    def arcsin(self):
        return S(smt.asin_f(smt.real(self.t)))

    def arccos(self):
        return S(smt.acos_f(smt.real(self.t)))

    def radians(self):
        return S(smt.real(self.t) * z3.RealVal(str(PIQ / 180)))

    deg2rad = radians

    def degrees(self):
        return S(smt.real(self.t) * z3.RealVal(str(Fraction(180) / PIQ)))

    rad2deg = degrees

    def floor(self):
        return S(z3.ToReal(z3.ToInt(smt.real(self.t))))

    def rint(self):
        return S(smt.rne_exact(self.t))

    def log(self):
        return S(smt.log_f(smt.real(self.t)))

    def exp(self):
        return S(smt.exp_f(smt.real(self.t)))

    def astype(self, t, **kw):
        if t in (int, _np.int64, _np.int32, "int"):
            if self.t.sort() == smt.I:
                return self
            # numpy truncates toward zero on float->int conversion
            return S(smt.trunc_int(self.t))
        return self

    def ceil(self):
        return S(-z3.ToReal(z3.ToInt(-smt.real(self.t))))

    def absolute(self):
        return abs(self)

    def conjugate(self):
        return self

    def isnan(self):
        return SB(z3.BoolVal(False))

    def copy(self):
        return self


def sym(name, sort="real"):
    return S(z3.Real(name) if sort == "real" else z3.Int(name))


def symarray(name, shape, sort="real"):
    a = _np.empty(shape, dtype=object)
    for idx in _np.ndindex(*shape):
        a[idx] = sym("%s_%s" % (name, "_".join(str(i) for i in idx)), sort)
    return a


def lift(a):
    """numpy array / nested list of numbers and S -> object array of S"""
    arr = _np.array(a, dtype=object)
    if Tracer.current is None and not any(isinstance(v, (S, SB)) for v in arr.ravel()):
        try:
            return _np.array(a, dtype=float)        # concrete replay: plain numpy
        except (TypeError, ValueError):
            pass
    out = _np.empty(arr.shape, dtype=object)
    for idx in _np.ndindex(*arr.shape):
        v = arr[idx]
        out[idx] = v if isinstance(v, (S, SB)) else S(_t(v))
    if arr.shape == ():
        return out[()]
    return out


class NPShim:
    """stands in for the module-global `np` of a traced module"""

    def __init__(self, tracer=None):
        self._np = _np
        self.pi = S(z3.RealVal(str(PIQ)))
        self.float64 = float
        self.float32 = float
        self.nan = _np.nan
        self.newaxis = _np.newaxis
        self.linalg = LinalgShim()

    def __getattr__(self, name):
        tr = Tracer.current
        if tr is not None:
            tr.used_np.add(name)
        return getattr(_np, name)

    def array(self, obj, dtype=None, copy=True, **kw):
        return lift(obj)

    def asarray(self, obj, dtype=None, **kw):
        return lift(obj)

    asanyarray = asarray

    def zeros(self, shape, dtype=None, **kw):
        if Tracer.current is None:
            return _np.zeros(shape)
        a = _np.empty(shape, dtype=object)
        a.fill(S(z3.RealVal(0)))
        return a

    def ones(self, shape, dtype=None, **kw):
        a = _np.empty(shape, dtype=object)
        a.fill(S(z3.RealVal(1)))
        return a

    def empty(self, shape, dtype=None, **kw):
        a = _np.empty(shape, dtype=object)
        a.fill(S(z3.Real("uninit!%d" % id(a))))
        return a

    def full(self, shape, val, dtype=None, **kw):
        a = _np.empty(shape, dtype=object)
        if isinstance(val, float) and val != val:
            for idx in _np.ndindex(*a.shape):
                a[idx] = S(z3.Real("nanfill!%d!%s" % (id(a) % 100000, "_".join(map(str, idx)))))
        else:
            a.fill(S(_t(val)))
        return a

    def diag(self, a):
        a = lift(a)
        if a.ndim == 2:
            return _np.array([a[i, i] for i in range(a.shape[0])], dtype=object)
        out = _np.empty((a.shape[0], a.shape[0]), dtype=object)
        out.fill(S(z3.RealVal(0)))
        for i in range(a.shape[0]):
            out[i, i] = a[i]
        return out

    def stack(self, arrs, axis=0):
        return _np.stack([lift(a) for a in arrs], axis=axis)

    def column_stack(self, arrs):
        return _np.column_stack([lift(a) for a in arrs])

    def eye(self, n, dtype=None):
        return lift(_np.eye(n).astype(int))

    def identity(self, n, dtype=None):
        return lift(_np.eye(n).astype(int))

    def zeros_like(self, a, dtype=None):
        return self.zeros(_np.shape(a))

    def where(self, c, a=None, b=None):
        if a is None:
            c = _np.asarray(c, dtype=object)
            if c.ndim != 1:
                raise Unsupported("np.where with one argument on ndim %d" % c.ndim)
            return (_np.array([i for i in range(c.shape[0]) if bool(c[i])], dtype=int),)
        c = _np.asarray(c, dtype=object)
        a, b = _np.broadcast_to(_np.asarray(a, dtype=object), c.shape), _np.broadcast_to(_np.asarray(b, dtype=object), c.shape)
        out = _np.empty(c.shape, dtype=object)
        for idx in _np.ndindex(*c.shape):
            cond = c[idx]
            if isinstance(cond, SB):
                out[idx] = S(z3.If(cond.b, _r(a[idx]), _r(b[idx])))
            else:
                out[idx] = a[idx] if cond else b[idx]
        return out

    def isnan(self, x):
        if isinstance(x, S):
            return False
        return _np.isnan(x) if not (_arr(x) and x.dtype == object) else _np.zeros(x.shape, bool)

    def radians(self, x):
        return _np.radians(lift(x)) if not isinstance(x, S) else x.radians()

    def degrees(self, x):
        return _np.degrees(lift(x)) if not isinstance(x, S) else x.degrees()

    def sin(self, x):
        return _np.sin(lift(x)) if not isinstance(x, S) else x.sin()

    def cos(self, x):
        return _np.cos(lift(x)) if not isinstance(x, S) else x.cos()

    def sqrt(self, x):
        return _np.sqrt(lift(x)) if not isinstance(x, S) else x.sqrt()

    def arctan2(self, a, b):
        return _np.arctan2(lift(a), lift(b))

    def arcsin(self, x):
        return _np.arcsin(lift(x)) if not isinstance(x, S) else x.arcsin()

    def arccos(self, x):
        return _np.arccos(lift(x)) if not isinstance(x, S) else x.arccos()

    def floor(self, x):
        return _np.floor(lift(x)) if not isinstance(x, S) else x.floor()

    def ceil(self, x):
        return _np.ceil(lift(x)) if not isinstance(x, S) else x.ceil()

    def round(self, x, *a):
        return _np.rint(lift(x)) if not isinstance(x, S) else x.rint()

    def dot(self, a, b):
        return _np.dot(lift(a), lift(b))

    def cross(self, a, b, **kw):
        a, b = lift(a), lift(b)
        if a.shape == (3,) and b.shape == (3,):
            return lift([a[1] * b[2] - a[2] * b[1], a[2] * b[0] - a[0] * b[2], a[0] * b[1] - a[1] * b[0]])
        if a.ndim == 2 and a.shape[1] == 3 or b.ndim == 2 and b.shape[1] == 3:
            a2, b2 = _np.broadcast_arrays(a, b)
            out = _np.empty(a2.shape, dtype=object)
            out[:, 0] = a2[:, 1] * b2[:, 2] - a2[:, 2] * b2[:, 1]
            out[:, 1] = a2[:, 2] * b2[:, 0] - a2[:, 0] * b2[:, 2]
            out[:, 2] = a2[:, 0] * b2[:, 1] - a2[:, 1] * b2[:, 0]
            return out
        raise Unsupported("np.cross shapes %s %s" % (a.shape, b.shape))

    def sum(self, a, axis=None, **kw):
        return _np.sum(lift(a), axis=axis)

    def abs(self, x):
        return _np.abs(lift(x)) if not isinstance(x, S) else abs(x)

    def trace(self, a):
        a = lift(a)
        return sum(a[i, i] for i in range(a.shape[0]))

    def transpose(self, a, *ax):
        return _np.transpose(lift(a), *ax)

    def outer(self, a, b):
        return _np.outer(lift(a), lift(b))

    def allclose(self, a, b, **k):
        if isinstance(a, (int, float)) and isinstance(b, (int, float)):
            return _np.allclose(a, b, **k)
        raise Unsupported("np.allclose on symbolic values inside traced code")


class LinalgShim:
    """assumed contracts of numpy.linalg (listed in evidence): inv of a 3x3 by the adjugate formula"""

    def inv(self, m):
        m = lift(m)
        if m.shape != (3, 3):
            raise Unsupported("inv of shape %s" % (m.shape,))
        def minor(i, j):
            r = [x for x in range(3) if x != i]
            c = [x for x in range(3) if x != j]
            return m[r[0], c[0]] * m[r[1], c[1]] - m[r[0], c[1]] * m[r[1], c[0]]
        det = m[0, 0] * minor(0, 0) - m[0, 1] * minor(0, 1) + m[0, 2] * minor(0, 2)
        out = _np.empty((3, 3), dtype=object)
        for i in range(3):
            for j in range(3):
                c = minor(j, i)
                out[i, j] = (c if (i + j) % 2 == 0 else -c) / det
        tr = Tracer.current
        if tr is not None:
            tr.inv_dets = getattr(tr, "inv_dets", []) + [det.t]
        return out

    def det(self, m):
        m = lift(m)
        if m.shape != (3, 3):
            raise Unsupported("det of shape %s" % (m.shape,))
        return (m[0, 0] * (m[1, 1] * m[2, 2] - m[1, 2] * m[2, 1]) - m[0, 1] * (m[1, 0] * m[2, 2] - m[1, 2] * m[2, 0])
                + m[0, 2] * (m[1, 0] * m[2, 1] - m[1, 1] * m[2, 0]))

    def svd(self, m):
        """assumed contract of numpy.linalg.svd for an invertible 3x3 F: F = w.diag(s).vh, w and vh orthogonal, s > 0"""
        m = lift(m)
        tr = Tracer.current
        k = len(getattr(tr, "svd_calls", [])) if tr is not None else 0
        w = symarray("svd%d_w" % k, (3, 3))
        s = symarray("svd%d_s" % k, (3,))
        vh = symarray("svd%d_vh" % k, (3, 3))
        if tr is not None:
            tr.svd_calls = getattr(tr, "svd_calls", []) + [(m, w, s, vh)]
        return w, s, vh

    def matrix_power(self, m, n):
        m = lift(m)
        if n < 0:
            m = self.inv(m)
            n = -n
        out = lift(_np.eye(3).astype(int))
        for _ in range(int(n)):
            out = _np.dot(out, m)
        return out

    def norm(self, v, axis=None):
        v = lift(v)
        if v.ndim == 1:
            return sum(x * x for x in v).sqrt()
        raise Unsupported("norm of ndim %d" % v.ndim)


class MathShim:
    pi = S(z3.RealVal(str(PIQ)))

    def __getattr__(self, name):
        def f(*a):
            a0 = a[0] if isinstance(a[0], S) else S(_t(a[0]))
            if name == "atan2":
                return a0.arctan2(a[1])
            m = {"asin": "arcsin", "acos": "arccos", "fabs": "__abs__"}.get(name, name)
            return getattr(a0, m)()
        return f


@contextlib.contextmanager
def shimmed(*modules, extra=None):
    """rebind np / math in the given modules for the duration of a trace (process-local, nothing is written);
    `from math import ...` executed inside a traced function sees the shim as well"""
    import sys
    saved = []
    shim = NPShim()
    real_math = sys.modules["math"]
    fake_math = types.ModuleType("math")
    ms = MathShim()
    for nm in ("sin", "cos", "tan", "asin", "acos", "atan2", "sqrt", "degrees", "radians", "fabs", "floor", "log", "exp"):
        setattr(fake_math, nm, getattr(ms, nm))
    fake_math.pi = MathShim.pi
    sys.modules["math"] = fake_math
    try:
        for m in modules:
            for name, val in (("np", shim), ("numpy", shim), ("math", MathShim())):
                if hasattr(m, name) and isinstance(getattr(m, name), types.ModuleType):
                    saved.append((m, name, getattr(m, name)))
                    setattr(m, name, val)
            for name, val in (extra or {}).items():
                saved.append((m, name, getattr(m, name, None)))
                setattr(m, name, val)
        yield shim
    finally:
        sys.modules["math"] = real_math
        for m, name, val in reversed(saved):
            if val is None:
                try:
                    delattr(m, name)
                except AttributeError:
                    pass
            else:
                setattr(m, name, val)


def term(x):
    return _r(x)
