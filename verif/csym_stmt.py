"""Statement level of the C symbolic executor: control flow, state merging, loops
(invariant cut points or complete unrolling), OpenMP data-race-freedom obligations,
function exit obligations."""
import re
import z3
from . import smt, ctypes_ as ct, contract as K
from .cfront import norm_text, node_span
from .csym import (Unsupported, Region, Mem, Ptr, Sc, LV, State, Ob, arr_sort, ArrView, OldNS, MAX_UNROLL)
from .csym_exec import kids, ntype, BOOL, INT, PURE_MATH, DROPPED_CALLS

LOOPS = ("ForStmt", "WhileStmt", "DoStmt")


def simp(t):
    return z3.simplify(t)


def merge_val(sel, a, b):
    if a is b:
        return a
    if isinstance(a, Sc) and isinstance(b, Sc):
        if a.t.eq(b.t):
            return a
        x, y = a.t, b.t
        if z3.is_bool(x) != z3.is_bool(y):
            x, y = smt.integer(x), smt.integer(y)
            return Sc(z3.If(sel, x, y), INT)
        if x.sort() != y.sort():
            x, y = smt.real(x), smt.real(y)
        return Sc(z3.If(sel, x, y), a.ct)
    if isinstance(a, Ptr) and isinstance(b, Ptr):
        if a.region is b.region:
            off = a.off if a.off.eq(b.off) else z3.If(sel, a.off, b.off)
            return Ptr(a.region, off, a.pointee)
        raise Unsupported("pointer with path-dependent target (%s / %s)" % (a.region, b.region))
    raise Unsupported("merge of different value kinds")


def merge(s1, s2):
    if s1 is None:
        return s2
    if s2 is None:
        return s1
    n = 0
    while n < len(s1.pc) and n < len(s2.pc) and s1.pc[n].eq(s2.pc[n]):
        n += 1
    d1, d2 = smt.conj(s1.pc[n:]), smt.conj(s2.pc[n:])
    if z3.is_false(simp(d1)):
        return s2
    if z3.is_false(simp(d2)):
        return s1
    sel = d1
    out = State()
    both = simp(z3.Or(d1, d2))
    out.pc = s1.pc[:n] + ([] if z3.is_true(both) else [both])
    phi = {}
    for name in s1.vars:
        if name not in s2.vars:
            continue
        (v1, e1), (v2, e2) = s1.vars[name], s2.vars[name]
        if isinstance(v1, Ptr) and isinstance(v2, Ptr) and v1.region is not v2.region \
                and v1.region is not None and v2.region is not None and v1.region.ctype == v2.region.ctype \
                and v1.region.elem != "ptr":
            # the pointer addresses different buffers on the two paths (e.g. S = realloc(...) on one of them):
            # continue with one merged buffer whose content, length and liveness are selected by the path; the
            # two originals are not reachable through this variable any more and are treated as dead
            key = (v1.region.id, v2.region.id)
            if key not in phi:
                r = Region("phi(%s|%s)" % (v1.region.name, v2.region.name), v1.region.ctype, "heap")
                m1, m2 = s1.mem[v1.region.id], s2.mem[v2.region.id]
                phi[key] = (r, Mem(z3.If(sel, m1.vals, m2.vals), z3.If(sel, m1.defd, m2.defd),
                                   simp(z3.If(sel, m1.alive, m2.alive)), z3.If(sel, m1.length, m2.length)))
                ex = merge.executor
                if ex is not None:
                    ex.region_by_id[r.id] = r
                    if v1.region.id in ex.heap_owned or v2.region.id in ex.heap_owned:
                        ex.heap_owned.add(r.id)
                        ex.heap_owned.discard(v1.region.id)
                        ex.heap_owned.discard(v2.region.id)
            r, _ = phi[key]
            off = v1.off if v1.off.eq(v2.off) else z3.If(sel, v1.off, v2.off)
            e = e1 if e1.eq(e2) else simp(z3.If(sel, e1, e2))
            out.vars[name] = (Ptr(r, off, v1.pointee), e)
            continue
        try:
            v = merge_val(sel, v1, v2)
        except Unsupported:
            # a pointer that differs between the paths in any other way becomes unusable (undefined) after the join
            out.vars[name] = (v1, z3.BoolVal(False))
            continue
        e = e1 if e1.eq(e2) else simp(z3.If(sel, e1, e2))
        out.vars[name] = (v, e)
    for rid in set(s1.mem) | set(s2.mem):
        m1, m2 = s1.mem.get(rid), s2.mem.get(rid)
        if m1 is None or m2 is None:
            m = (m1 or m2).copy()
            # allocated on one path only: alive only there
            guard = d1 if m2 is None else d2
            m.alive = simp(z3.And(guard, m.alive))
            out.mem[rid] = m
            continue
        def mg(a, b):
            if a is None or b is None:
                return a if b is None else b
            return a if a.eq(b) else z3.If(sel, a, b)
        cells = None
        if m1.cells is not None:
            cells = {}
            for k in m1.cells:
                if k in m2.cells:
                    cells[k] = merge_val(sel, m1.cells[k], m2.cells[k])
        out.mem[rid] = Mem(mg(m1.vals, m2.vals), mg(m1.defd, m2.defd), simp(mg(m1.alive, m2.alive)),
                           mg(m1.length, m2.length), cells)
    for (i1, i2), (r, m) in phi.items():
        out.mem[r.id] = m
        for rid in (i1, i2):
            if rid in out.mem:
                out.mem[rid].alive = z3.BoolVal(False)
    if s1.retval is not None or s2.retval is not None:
        if s1.retval is None or s2.retval is None:
            raise Unsupported("return with and without value")
        out.retval = merge_val(sel, s1.retval, s2.retval)
    return out


merge.executor = None


def add_exit(exits, key, st):
    if st is None:
        return
    exits[key] = merge(exits.get(key), st)


def dead(st):
    return st is None or any(z3.is_false(p) for p in st.pc)


class StmtMixin:
    # ------------------------------------------------------------------ statements
    def exec_stmt(self, state, node):
        """returns {'fall': State|None, 'break':..., 'continue':..., 'return':..., ('goto',label):...}"""
        if dead(state):
            return {}
        k = node.get("kind")
        if k == "CompoundStmt":
            return self.exec_compound(state, node)
        if k == "DeclStmt":
            for d in kids(node):
                self.exec_decl(state, d)
            return {"fall": state}
        if k == "NullStmt":
            return {"fall": state}
        if k == "IfStmt":
            return self.exec_if(state, node)
        if k in LOOPS:
            return self.exec_loop(state, node)
        if k == "ReturnStmt":
            ks = kids(node)
            if ks:
                state.retval = self.rvalue(state, ks[0])
            self.return_states.append((state, node))
            return {}
        if k == "BreakStmt":
            return {"break": state}
        if k == "ContinueStmt":
            return {"continue": state}
        if k == "GotoStmt":
            return {("goto", node["targetLabelDeclId"]): state}
        if k == "LabelStmt":
            return self.exec_stmt(state, kids(node)[0])
        if k.startswith("OMP") and k.endswith("Directive"):
            return self.exec_omp(state, node)
        if k == "CapturedStmt":
            return self.exec_stmt(state, kids(kids(node)[0])[0])
        if k == "DoStmt":
            return self.exec_loop(state, node)
        # expression statement
        self.rvalue(state, node) if k not in ("CallExpr",) else self.ev(state, node)
        return {"fall": state}

    def exec_compound(self, state, node):
        exits = {}
        cur = state
        pending = {}     # label decl id -> state
        for s in kids(node):
            if s.get("kind") == "LabelStmt":
                lid = s.get("declId")
                if lid in pending:
                    cur = merge(cur if not dead(cur) else None, pending.pop(lid))
            if dead(cur):
                cur = None
                if not pending:
                    # rest is unreachable on this path; labels later might still be targets of gotos seen later (backward) -> unsupported
                    continue
                continue
            if self.c.asserts:
                key = "before:" + norm_text(self.cf.text(s))
                if key not in self.c.asserts:
                    full = norm_text(self.cf.text(s), 100000)
                    for k2 in self.c.asserts:
                        if isinstance(k2, str) and k2.startswith("before^:") and full.startswith(k2[len("before^:"):]):
                            key = k2
                            break
                if key in self.c.asserts:
                    self.loop_keys_used.add(("assert", key))
                    for tag, a in self.clauses(self.c.asserts[key]):
                        g = K.evaluate(a, self.namespace(cur, self.entry))
                        self.oblige(cur, "assert", s, g, label=norm_text(a), prop=tag)
                        self.fact(cur, g)
            ex = self.exec_stmt(cur, s)
            cur = ex.pop("fall", None)
            for key, st in ex.items():
                if isinstance(key, tuple) and key[0] == "goto":
                    if self.label_in(node, key[1], after=s):
                        pending[key[1]] = merge(pending.get(key[1]), st)
                    else:
                        add_exit(exits, key, st)
                else:
                    add_exit(exits, key, st)
        for lid, st in pending.items():
            add_exit(exits, ("goto", lid), st)
        if cur is not None and not dead(cur):
            exits["fall"] = cur
        return exits

    def label_in(self, compound, lid, after):
        seen = False
        for s in kids(compound):
            if s is after:
                seen = True
                continue
            if seen and s.get("kind") == "LabelStmt" and s.get("declId") == lid:
                return True
        return False

    def exec_decl(self, state, d):
        if d.get("kind") != "VarDecl":
            if d.get("kind") in ("TypedefDecl", "RecordDecl", "EnumDecl"):
                raise Unsupported("local %s" % d.get("kind"))
            return
        name = d["name"]
        try:
            t = ct.parse(d["type"]["qualType"])
        except ValueError:
            t = ct.parse(d["type"].get("desugaredQualType", d["type"]["qualType"]))
        if name in self.var_types and self.var_types[name] != t:
            raise Unsupported("shadowed variable %s with different type" % name)
        self.var_types[name] = t
        init = [c for c in kids(d)]
        if t[0] == "arr":
            base = ct.base_scalar(t)
            reg = Region(name, base, "local")
            n = ct.nscalars(t)
            vals = smt.fresh(name + "@v", arr_sort(reg.elem))
            defd = z3.K(smt.I, z3.BoolVal(False))
            if init:
                il = init[0]
                if il.get("kind") != "InitListExpr":
                    raise Unsupported("array initialiser")
                flat = self.flatten_init(state, il)
                zero = z3.RealVal(0) if reg.elem == "real" else z3.IntVal(0)
                vals = z3.K(smt.I, zero)
                for i, v in enumerate(flat):
                    vals = z3.Store(vals, z3.IntVal(i), self.convert(state, v, base, d).t)
                defd = z3.K(smt.I, z3.BoolVal(True))
            state.mem[reg.id] = Mem(vals, defd, z3.BoolVal(True), z3.IntVal(n))
            state.vars[name] = (Ptr(reg, z3.IntVal(0), t), z3.BoolVal(True))
            return
        if t[0] == "ptr":
            if init:
                v = self.rvalue(state, init[0])
                if not isinstance(v, Ptr):
                    raise Unsupported("pointer initialised from non-pointer")
                state.vars[name] = (v, z3.BoolVal(True))
            else:
                state.vars[name] = (Ptr(None, z3.IntVal(0), t[1]), z3.BoolVal(False))
            return
        if t[0] in ("int", "real"):
            if init:
                v = self.rvalue(state, init[0])
                state.vars[name] = (self.convert(state, v, t, d), z3.BoolVal(True))
            else:
                state.vars[name] = (Sc(self.fresh_like(name + "@u", t), t), z3.BoolVal(False))
            return
        raise Unsupported("local of type %s" % (t,))

    def flatten_init(self, state, il):
        out = []
        for c in kids(il):
            if c.get("kind") == "InitListExpr":
                out += self.flatten_init(state, c)
            elif c.get("kind") == "ImplicitValueInitExpr":
                pass
            else:
                out.append(self.rvalue(state, c))
        return out

    def exec_if(self, state, node):
        ks = kids(node)
        cond, then = ks[0], ks[1]
        els = ks[2] if len(ks) > 2 else None
        c = self.truth(self.rvalue(state, cond))
        cs = simp(c)
        exits = {}
        if z3.is_true(cs):
            return self.exec_stmt(state, then)
        if z3.is_false(cs):
            if els is None:
                return {"fall": state}
            return self.exec_stmt(state, els)
        s1 = state.copy()
        s1.pc.append(c)
        s2 = state
        s2.pc.append(z3.Not(c))
        ex1 = self.exec_stmt(s1, then)
        ex2 = self.exec_stmt(s2, els) if els is not None else {"fall": s2}
        for ex in (ex1, ex2):
            for key, st in ex.items():
                add_exit(exits, key, st)
        return exits

    # ------------------------------------------------------------------ loops
    def loop_parts(self, node):
        k = node["kind"]
        ks = kids(node)
        if k == "ForStmt":
            init, _cv, cond, inc, body = ks
            return (init if init.get("kind") else None, cond if cond.get("kind") else None,
                    inc if inc.get("kind") else None, body)
        if k == "WhileStmt":
            return None, ks[0], None, ks[1]
        if k == "DoStmt":
            return None, ks[1], None, ks[0]
        raise Unsupported(k)

    def loop_header_text(self, node):
        b, _ = node_span(node)
        body = self.loop_parts(node)[3]
        bb, _ = node_span(body)
        if node["kind"] == "DoStmt":
            return "do"
        return norm_text(self.cf.src[b:bb].decode("utf-8", "replace"))

    def find_invariants(self, ordinal, header):
        c = self.c
        for key in (ordinal, header):
            if key in c.loops:
                self.loop_keys_used.add(key)
                v = c.loops[key]
                return self.clauses(list(v) if isinstance(v, (list, tuple)) else [v])
        return []

    def exec_loop(self, state, node, omp=None):
        ordinal = self.loop_counter
        self.loop_counter += 1
        init, cond, inc, body = self.loop_parts(node)
        is_do = node["kind"] == "DoStmt"
        nloops_inside = self.count_loops(body)
        if init is not None:
            if init.get("kind") == "DeclStmt":
                for d in kids(init):
                    self.exec_decl(state, d)
            else:
                self.rvalue(state, init)
        exits = {}
        after = None      # merged exit state
        cur = state
        # --- complete unrolling while the condition is concrete
        it = 0
        first = True
        save_counter = self.loop_counter
        if omp is None:
            while True:
                if is_do and first:
                    cs = z3.BoolVal(True)
                else:
                    probe = cur.copy()
                    nobs = len(self.obs)
                    names_save = dict(self.names)
                    cv = self.truth(self.rvalue(probe, cond)) if cond is not None else z3.BoolVal(True)
                    cs = simp(cv)
                    if not (z3.is_true(cs) or z3.is_false(cs)):
                        del self.obs[nobs:]
                        self.names = names_save
                        break
                    cur = probe
                first = False
                if z3.is_false(cs):
                    after = merge(after, cur)
                    cur = None
                    break
                it += 1
                if it > MAX_UNROLL:
                    raise Unsupported("loop unrolled more than %d times" % MAX_UNROLL)
                self.loop_counter = save_counter
                ex = self.exec_stmt(cur, body)
                cur = merge(ex.pop("fall", None), ex.pop("continue", None))
                after = merge(after, ex.pop("break", None))
                for key, st in ex.items():
                    add_exit(exits, key, st)
                if cur is None or dead(cur):
                    cur = None
                    break
                if inc is not None:
                    self.rvalue(cur, inc)
            self.loop_counter = save_counter + nloops_inside
            if cur is None:
                if it:
                    self.unrolled.append((ordinal, it))
                if after is not None:
                    exits["fall"] = after
                return exits
            if it and not self.opt.get("allow_partial_unroll", True):
                raise Unsupported("loop condition became symbolic after %d unrolled iterations" % it)
        # --- invariant mode
        header = self.loop_header_text(node)
        invs = self.find_invariants(ordinal, header)
        self.loop_stack.append(ordinal)
        pre = cur
        mod_vars, mod_regions, fresh_ptrs = self.modified(pre, [x for x in (cond, inc, body) if x is not None])
        auto = self.auto_invariant(pre, node, init, cond, inc, body, mod_vars)
        ns_extra = {"pre": OldNS(self._bind(pre))}
        # establish
        for tag, s in invs:
            g = K.evaluate(s, self.namespace(pre, self.entry, extra=ns_extra))
            self.oblige(pre, "inv.init", node, g, label="loop%d:%s" % (ordinal, norm_text(s)), prop=tag)
        head = pre.copy()
        self.havoc(head, pre, mod_vars, mod_regions, fresh_ptrs)
        for a in auto:
            self.fact(head, a(head))
        ns_head = self.namespace(head, self.entry, extra=ns_extra)
        for tag, s in invs:
            self.fact(head, K.evaluate(s, ns_head))
        self.drain_axioms()
        if omp is not None:
            self.auto_invariant_cache = auto
            self.check_drf(head, node, omp, init, cond, inc, body, ordinal)
        # body path
        b = head.copy()
        exit_state = head
        if not is_do:
            cvb = self.truth(self.rvalue(b, cond)) if cond is not None else z3.BoolVal(True)
            b.pc.append(cvb)
        self.loop_counter = save_counter
        ex = self.exec_stmt(b, body)
        self.loop_counter = save_counter + nloops_inside
        endb = merge(ex.pop("fall", None), ex.pop("continue", None))
        brk = ex.pop("break", None)
        for key, st in ex.items():
            add_exit(exits, key, st)
        if endb is not None and not dead(endb):
            for key in (ordinal, header):
                if key in self.c.asserts:
                    self.loop_keys_used.add(("assert", key))
                    for tag, s in self.clauses(self.c.asserts[key]):
                        g = K.evaluate(s, self.namespace(endb, self.entry, extra=ns_extra))
                        self.oblige(endb, "assert", node, g, label="loop%d:%s" % (ordinal, norm_text(s)), prop=tag)
                        self.fact(endb, g)
                    break
            if inc is not None:
                self.rvalue(endb, inc)
            if is_do:
                cvd = self.truth(self.rvalue(endb, cond))
                # the do-loop continues only if cond holds; otherwise it exits with this state
                leave = endb.copy()
                leave.pc.append(z3.Not(cvd))
                brk = merge(brk, leave)
                endb.pc.append(cvd)
            ns_end = self.namespace(endb, self.entry, extra=ns_extra)
            for tag, s in invs:
                self.oblige(endb, "inv.preserve", node, K.evaluate(s, ns_end),
                            label="loop%d:%s" % (ordinal, norm_text(s)), prop=tag)
            for j, a in enumerate(auto):
                if getattr(a, "assume_only", False):
                    continue
                self.oblige(endb, "inv.preserve", node, a(endb), label="loop%d:auto%d" % (ordinal, j))
        self.loop_stack.pop()
        # exit path
        if not is_do:
            cve = self.truth(self.rvalue(exit_state, cond)) if cond is not None else z3.BoolVal(True)
            exit_state.pc.append(z3.Not(cve))
            after = merge(after, exit_state)
        after = merge(after, brk)
        if omp is not None and after is not None:
            # private copies vanish: the original variables keep their pre-loop value
            for v in omp["private"] | {omp["loopvar"]}:
                if v in pre.vars and v in after.vars:
                    after.vars[v] = pre.vars[v]
        if after is not None and not dead(after):
            exits["fall"] = after
        return exits

    def count_loops(self, node):
        n = 0
        for c in kids(node):
            if c.get("kind") in LOOPS:
                n += 1
            n += self.count_loops(c)
        return n

    def _bind(self, s):
        d = {}
        for name, (v, dd) in s.vars.items():
            if isinstance(v, Sc):
                d[name] = v.t
            elif isinstance(v, Ptr) and v.region is not None:
                d[name] = ArrView(self, s, self.decay(v))
        return d

    # ---- what a loop may modify (syntactic, conservative)
    def root_var(self, node):
        k = node.get("kind")
        if k == "DeclRefExpr":
            return node["referencedDecl"]["name"]
        if k in ("ArraySubscriptExpr",):
            return self.root_var(kids(node)[0])
        if k in ("ParenExpr", "ImplicitCastExpr", "CStyleCastExpr", "UnaryOperator"):
            return self.root_var(kids(node)[0])
        if k == "BinaryOperator" and node.get("opcode") in ("+", "-"):
            a, b = kids(node)
            try:
                ta = ntype(a)
            except Unsupported:
                ta = None
            return self.root_var(a if ta and ta[0] in ("ptr", "arr") else b)
        raise Unsupported("cannot find base variable of lvalue (%s)" % k)

    def lvalue_target(self, node):
        """('var', name) or ('mem', rootvar)"""
        k = node.get("kind")
        while k == "ParenExpr":
            node = kids(node)[0]
            k = node.get("kind")
        if k == "DeclRefExpr":
            name = node["referencedDecl"]["name"]
            t = self.var_types.get(name)
            if t is not None and t[0] == "arr":
                return ("mem", name)
            return ("var", name)
        if k == "ArraySubscriptExpr":
            return ("mem", self.root_var(kids(node)[0]))
        if k == "UnaryOperator" and node.get("opcode") == "*":
            return ("mem", self.root_var(kids(node)[0]))
        raise Unsupported("assignment target %s" % k)

    def scan_writes(self, node, vars_, mems, calls, decls):
        k = node.get("kind")
        if k == "VarDecl":
            decls.add(node["name"])
        tgt = None
        if k == "BinaryOperator" and node.get("opcode") == "=":
            tgt = kids(node)[0]
            rhs = kids(node)[1]
            while rhs.get("kind") in ("ParenExpr", "CStyleCastExpr", "ImplicitCastExpr"):
                rhs = kids(rhs)[0]
            if rhs.get("kind") == "CallExpr":
                t = self.lvalue_target(tgt)
                if t[0] == "var":
                    calls.setdefault("ptr_from_call", set()).add(t[1])
        elif k == "CompoundAssignOperator":
            tgt = kids(node)[0]
        elif k == "UnaryOperator" and node.get("opcode") in ("++", "--"):
            tgt = kids(node)[0]
        if tgt is not None:
            kind, name = self.lvalue_target(tgt)
            (vars_ if kind == "var" else mems).add(name)
        if k == "CallExpr":
            nm = self.callee_name(node)
            calls.setdefault("calls", []).append(node)
            if nm not in PURE_MATH and nm not in DROPPED_CALLS:
                from . import csym_calls
                csym_calls.scan_call_writes(self, node, nm, vars_, mems)
        if k == "UnaryExprOrTypeTraitExpr":
            return
        for c in kids(node):
            self.scan_writes(c, vars_, mems, calls, decls)

    def modified(self, state, nodes):
        vars_, mems, calls, decls = set(), set(), {}, set()
        for n in nodes:
            self.scan_writes(n, vars_, mems, calls, decls)
        regions = set()
        fresh_ptrs = set()
        for name in mems:
            if name in decls and name not in state.vars:
                continue
            if name not in state.vars:
                raise Unsupported("write through unknown variable %s" % name)
            v, d = state.vars[name]
            if isinstance(v, Ptr) and v.region is not None:
                regions.add(v.region)
        for name in calls.get("ptr_from_call", ()):
            t = self.var_types.get(name)
            if t and t[0] == "ptr":
                fresh_ptrs.add(name)
        vars_ = {v for v in vars_ if v in state.vars}
        return vars_, regions, fresh_ptrs

    def havoc(self, head, pre, mod_vars, mod_regions, fresh_ptrs):
        for name in sorted(mod_vars):
            v, d = head.vars[name]
            t = self.var_types[name]
            if isinstance(v, Sc):
                nv = self.fresh_like(name, t)
                if t[0] == "int":
                    lo, hi = ct.int_range(t)
                    self.facts.append(z3.And(nv >= lo, nv <= hi))
                nd = d if z3.is_true(d) else smt.fresh(name + "@d", smt.B)
                head.vars[name] = (Sc(nv, t), nd)
            elif isinstance(v, Ptr):
                if name in fresh_ptrs:
                    old = v.region
                    reg = Region(name + "'", old.ctype if old is not None else ct.base_scalar(t[1]), "heap")
                    reg.havocked_from = old
                    if old is not None:
                        head.mem[old.id].alive = z3.BoolVal(False)
                    ln = smt.fresh(name + "@len", smt.I)
                    self.facts.append(ln >= 0)
                    head.mem[reg.id] = Mem(smt.fresh(name + "@v", arr_sort(reg.elem)),
                                           smt.fresh(name + "@def", z3.ArraySort(smt.I, smt.B)),
                                           z3.BoolVal(True), ln)
                    head.vars[name] = (Ptr(reg, z3.IntVal(0), v.pointee), d if z3.is_true(d) else smt.fresh(name + "@d", smt.B))
                    self.heap_owned.add(reg.id)
                    self.region_by_id[reg.id] = reg
                    if old is not None and old.id in self.heap_owned:
                        self.heap_owned.discard(old.id)
                else:
                    if v.region is None:
                        raise Unsupported("loop modifies pointer %s with unknown target" % name)
                    head.vars[name] = (Ptr(v.region, smt.fresh(name + "@off", smt.I), v.pointee),
                                       d if z3.is_true(d) else smt.fresh(name + "@d", smt.B))
        for reg in sorted(mod_regions, key=lambda r: r.id):
            if reg.id not in head.mem:
                continue
            m = head.mem[reg.id]
            if not z3.is_true(simp(m.alive)) and z3.is_false(simp(m.alive)):
                continue
            if reg.elem == "ptr":
                raise Unsupported("loop writes pointer array")
            m.vals = smt.fresh(reg.name + "@v", arr_sort(reg.elem))
            if reg.ctype[0] == "int":
                lo, hi = ct.int_range(reg.ctype)
                q = smt.fresh("q", smt.I)
                self.facts.append(z3.ForAll([q], z3.And(z3.Select(m.vals, q) >= lo, z3.Select(m.vals, q) <= hi)))
            if not (z3.is_K(m.defd) and z3.is_true(m.defd.arg(0))):
                nd = smt.fresh(reg.name + "@def", z3.ArraySort(smt.I, smt.B))
                q = smt.fresh("q", smt.I)
                self.facts.append(z3.ForAll([q], z3.Implies(z3.Select(m.defd, q), z3.Select(nd, q))))
                m.defd = nd

    def auto_invariant(self, pre, node, init, cond, inc, body, mod_vars):
        """range invariant of canonical counting loops: for (i = a; i < b; i++) with i, b not assigned in the body"""
        out = []
        if node["kind"] != "ForStmt" or cond is None or inc is None:
            return out
        c = cond
        while c.get("kind") == "ParenExpr":
            c = kids(c)[0]
        if c.get("kind") != "BinaryOperator" or c.get("opcode") not in ("<", "<=", ">", ">=", "!="):
            return out
        l, r = kids(c)
        def strip(n):
            while n.get("kind") in ("ImplicitCastExpr", "ParenExpr"):
                n = kids(n)[0]
            return n
        lv = strip(l)
        if lv.get("kind") != "DeclRefExpr":
            return out
        ivar = lv["referencedDecl"]["name"]
        # step
        step = None
        step_node = None
        i2 = inc
        if i2.get("kind") == "UnaryOperator" and i2.get("opcode") in ("++", "--") and strip(kids(i2)[0]).get("kind") == "DeclRefExpr" \
                and strip(kids(i2)[0])["referencedDecl"]["name"] == ivar:
            step = 1 if i2["opcode"] == "++" else -1
        elif i2.get("kind") == "CompoundAssignOperator" and i2.get("opcode") in ("+=", "-=") and \
                strip(kids(i2)[0]).get("kind") == "DeclRefExpr" and strip(kids(i2)[0])["referencedDecl"]["name"] == ivar:
            k = self.static_int(kids(i2)[1])
            if k is not None and k > 0:
                step = k if i2["opcode"] == "+=" else -k
        elif i2.get("kind") == "BinaryOperator" and i2.get("opcode") == "=" and strip(kids(i2)[0]).get("kind") == "DeclRefExpr" \
                and strip(kids(i2)[0])["referencedDecl"]["name"] == ivar:
            # i = i + k  /  i = i - k
            rhs = strip(kids(i2)[1])
            if rhs.get("kind") == "BinaryOperator" and rhs.get("opcode") in ("+", "-"):
                a, b = [strip(x) for x in kids(rhs)]
                if a.get("kind") == "DeclRefExpr" and a["referencedDecl"]["name"] == ivar:
                    k = self.static_int(b)
                    if k is not None and k > 0:
                        step = k if rhs["opcode"] == "+" else -k
                    elif k is None and rhs["opcode"] == "+":
                        step_node = b
        elif i2.get("kind") == "CompoundAssignOperator" and i2.get("opcode") == "+=" and \
                strip(kids(i2)[0]).get("kind") == "DeclRefExpr" and strip(kids(i2)[0])["referencedDecl"]["name"] == ivar \
                and self.static_int(kids(i2)[1]) is None:
            step_node = strip(kids(i2)[1])
        if step is None and step_node is not None:
            return self.strided_invariant(pre, node, c, ivar, r, step_node, body)
        if step is None:
            return out
        # i must only be modified by the increment; the bound expression must be loop-invariant
        v2, m2, c2, d2 = set(), set(), {}, set()
        self.scan_writes(body, v2, m2, c2, d2)
        if ivar in v2:
            return out
        bound_vars = set()
        self.collect_vars(r, bound_vars)
        if (bound_vars & (v2 | {ivar})) or self.reads_memory(r):
            return out
        if ivar not in pre.vars or not isinstance(pre.vars[ivar][0], Sc):
            return out
        i0 = pre.vars[ivar][0].t
        probe = pre.copy()
        nobs = len(self.obs)
        names_save = dict(self.names)
        try:
            bv = self.rvalue(probe, r)
        finally:
            del self.obs[nobs:]
            self.names = names_save
        if not isinstance(bv, Sc):
            return out
        bt = bv.t
        op = c["opcode"]
        if step > 0 and op in ("<", "<="):
            lim = bt if op == "<" else bt + 1
            # i0 <= i, and (i <= lim + step-1 unless the loop never ran)
            def inv(st, i0=i0, lim=lim, step=step, ivar=ivar):
                i = st.vars[ivar][0].t
                base = z3.And(i >= i0, z3.Or(i == i0, i <= lim + (step - 1)))
                if step != 1:
                    base = z3.And(base, (i - i0) % step == 0)
                return base
            out.append(inv)
        elif step < 0 and op in (">", ">="):
            lim = bt if op == ">" else bt - 1
            def inv(st, i0=i0, lim=lim, step=step, ivar=ivar):
                i = st.vars[ivar][0].t
                return z3.And(i <= i0, z3.Or(i == i0, i >= lim + (step + 1)))
            out.append(inv)
        return out

    def strided_invariant(self, pre, node, c, ivar, r, step_node, body):
        """for (i = a; i < b; i += e) with e, b loop-invariant expressions and i only changed by the increment: the values of i are
        a + n*e for n = 0, 1, ...  (e > 0 is an obligation at loop entry).  The ghost count n is introduced fresh wherever the
        invariant is assumed; its preservation needs no obligation (it is how the loop counts), the range part is checked as usual."""
        out = []
        if c.get("opcode") not in ("<", "<="):
            return out
        v2, m2, c2, d2 = set(), set(), {}, set()
        self.scan_writes(body, v2, m2, c2, d2)
        if ivar in v2:
            return out
        used = set()
        self.collect_vars(r, used)
        self.collect_vars(step_node, used)
        if (used & (v2 | {ivar})) or self.reads_memory(r) or self.reads_memory(step_node):
            return out
        if ivar not in pre.vars or not isinstance(pre.vars[ivar][0], Sc):
            return out
        i0 = pre.vars[ivar][0].t
        probe = pre.copy()
        nobs = len(self.obs)
        names_save = dict(self.names)
        try:
            bv = self.rvalue(probe, r)
            sv = self.rvalue(probe, step_node)
        finally:
            del self.obs[nobs:]
            self.names = names_save
        if not isinstance(bv, Sc) or not isinstance(sv, Sc) or sv.ct[0] != "int":
            return out
        step = sv.t
        self.oblige(pre, "stride-positive", node, step > 0, label=norm_text(self.cf.text(step_node)))
        lim = bv.t if c["opcode"] == "<" else bv.t + 1

        def rng(st, i0=i0, lim=lim, step=step, ivar=ivar):
            i = st.vars[ivar][0].t
            return z3.And(i >= i0, z3.Or(i == i0, i <= lim + step - 1))

        def stride(st, i0=i0, step=step, ivar=ivar):
            i = st.vars[ivar][0].t
            n = smt.fresh("n_" + ivar, smt.I)
            return z3.And(n >= 0, i == i0 + n * step, step > 0)
        stride.assume_only = True
        stride.step = step
        stride.ivar = ivar
        return [rng, stride]

    def static_int(self, node):
        while node.get("kind") in ("ImplicitCastExpr", "ParenExpr"):
            node = kids(node)[0]
        if node.get("kind") == "IntegerLiteral":
            return int(node["value"])
        return None

    def collect_vars(self, node, acc):
        if node.get("kind") == "DeclRefExpr" and node["referencedDecl"]["kind"] in ("VarDecl", "ParmVarDecl"):
            acc.add(node["referencedDecl"]["name"])
        for c in kids(node):
            self.collect_vars(c, acc)

    def reads_memory(self, node):
        if node.get("kind") in ("ArraySubscriptExpr", "CallExpr") or \
                (node.get("kind") == "UnaryOperator" and node.get("opcode") == "*"):
            return True
        return any(self.reads_memory(c) for c in kids(node))

    # ------------------------------------------------------------------ OpenMP
    def omp_info(self, node):
        b, e = node_span(node)
        # the directive's range starts at 'omp' after '#pragma'; take the whole logical line
        src = self.cf.src
        ls = src.rfind(b"\n", 0, b) + 1
        j = b
        while True:
            le = src.find(b"\n", j)
            if le < 0:
                le = len(src)
            if src[le - 1:le] == b"\\":
                j = le + 1
                continue
            break
        text = src[ls:le].decode("utf-8", "replace").replace("\\\n", " ")
        info = dict(text=re.sub(r"\s+", " ", text).strip(), private=set(), firstprivate=set(), reduction=set(),
                    shared=set(), kind=node["kind"])
        for m in re.finditer(r"\b(private|firstprivate|shared|lastprivate)\s*\(([^)]*)\)", text):
            # 'firstprivate(' also matches 'private(' at a later offset: guard by the preceding char
            if m.group(1) == "private" and text[max(0, m.start() - 5):m.start()].endswith("first"):
                continue
            info[m.group(1)] = info.get(m.group(1), set()) | {x.strip() for x in m.group(2).split(",") if x.strip()}
        for m in re.finditer(r"reduction\s*\(\s*([^:]+):([^)]*)\)", text):
            info["reduction"] |= {x.strip() for x in m.group(2).split(",") if x.strip()}
            info["redop"] = m.group(1).strip()
        return info

    def omp_stmt(self, node):
        for c in reversed(kids(node)):
            k = c.get("kind")
            if k == "CapturedStmt":
                return kids(kids(c)[0])[0]
            if k and (k.endswith("Stmt") or k.endswith("Directive") or k in ("BinaryOperator", "CallExpr", "CompoundAssignOperator", "UnaryOperator")):
                return c
        raise Unsupported("OpenMP directive without statement")

    def exec_omp(self, state, node):
        k = node["kind"]
        inner = self.omp_stmt(node)
        info = self.omp_info(node)
        if k in ("OMPParallelForDirective", "OMPParallelForSimdDirective", "OMPForDirective", "OMPForSimdDirective"):
            if inner.get("kind") != "ForStmt":
                raise Unsupported("omp for without for loop")
            if k in ("OMPForDirective", "OMPForSimdDirective") and not self.in_parallel:
                return self.exec_loop(state, inner)
            return self.exec_loop(state, inner, omp=info)
        if k == "OMPSimdDirective":
            return self.exec_stmt(state, inner)
        if k == "OMPCriticalDirective":
            return self.exec_stmt(state, inner)
        if k == "OMPParallelDirective":
            from . import csym_par
            return csym_par.exec_parallel(self, state, node, inner, info)
        raise Unsupported("OpenMP directive %s" % k)

    def check_drf(self, head, node, omp, init, cond, inc, body, ordinal):
        """schedule independence of an `omp parallel for`: scalars private, privates written before
        read, and no two distinct iterations touch the same shared cell with at least one write."""
        ivar = None
        c = cond
        while c.get("kind") == "ParenExpr":
            c = kids(c)[0]
        l = kids(c)[0]
        while l.get("kind") in ("ImplicitCastExpr", "ParenExpr"):
            l = kids(l)[0]
        ivar = l["referencedDecl"]["name"]
        omp["loopvar"] = ivar
        v2, m2, c2, d2 = set(), set(), {}, set()
        self.scan_writes(body, v2, m2, c2, d2)
        priv = omp["private"] | omp["firstprivate"] | {ivar} | set(getattr(self, "region_private", ()))
        tag = "loop%d" % ordinal
        for v in sorted(v2 - d2):
            if v in priv:
                continue
            if v in omp["reduction"]:
                ok = self.reduction_form_ok(body, v)
                self.oblige(head, "omp-reduction-form", node, z3.BoolVal(ok), label="%s:%s" % (tag, v))
                continue
            self.oblige(head, "omp-shared-scalar-written", node, z3.BoolVal(False), label="%s:%s" % (tag, v))
        for v in sorted(m2 - d2):
            t = self.var_types.get(v)
            if t is not None and t[0] == "arr" and v not in priv:
                self.oblige(head, "omp-shared-local-array-written", node, z3.BoolVal(False), label="%s:%s" % (tag, v))
        logs = []
        ivals = []
        save_obs, save_names, save_counter = self.obs, self.names, self.loop_counter
        for it in (1, 2):
            s = head.copy()
            iv = smt.fresh("%s_it%d" % (ivar, it), smt.I)
            s.vars[ivar] = (Sc(iv, self.var_types[ivar]), z3.BoolVal(True))
            for a in self.auto_invariant_cache or []:
                # the range invariant of the canonical loop (e.g. 0 <= i) holds for every iteration value
                s.pc.append(a(s))
            for v in omp["private"]:
                if v == ivar or v not in s.vars:
                    continue
                val, d = s.vars[v]
                if isinstance(val, Sc):
                    s.vars[v] = (Sc(self.fresh_like(v + "@p", self.var_types[v]), self.var_types[v]), z3.BoolVal(False))
                elif isinstance(val, Ptr) and self.var_types[v][0] == "arr":
                    m = s.mem[val.region.id]
                    m.vals = smt.fresh(v + "@pv", arr_sort(val.region.elem))
                    m.defd = z3.K(smt.I, z3.BoolVal(False))
            for v in omp["reduction"]:
                if v in s.vars and isinstance(s.vars[v][0], Sc):
                    s.vars[v] = (Sc(self.fresh_like(v + "@r", self.var_types[v]), self.var_types[v]), z3.BoolVal(True))
            self.obs, self.names = [], {}
            self.loop_counter = save_counter
            self.access_log = []
            # loop variable range from the loop condition, evaluated on this iteration
            cv = self.truth(self.rvalue(s, cond))
            s.pc.append(cv)
            lo = head.vars[ivar][0].t if False else None
            self.exec_stmt(s, body)
            log = self.access_log
            self.access_log = None
            keep = [o for o in self.obs if o.kind == "uninit" and o.text.startswith("var:") and
                    o.text.split(":")[1] in omp["private"]]
            self.obs, self.names = save_obs, save_names
            if it == 1:
                for o in keep:
                    o.kind = "omp-private-uninit"
                    o.name = o.name.replace(".uninit@", ".omp-private-uninit@")
                    if o.name not in {x.name for x in self.obs}:
                        self.obs.append(o)
            logs.append(log)
            ivals.append((iv, cv))
        self.loop_counter = save_counter
        (i1, c1), (i2, c2_) = ivals
        # iteration values reachable from the loop start: same residue class for strided loops is ignored (conservative)
        private_regions = set()
        for v in omp["private"]:
            if v in head.vars and isinstance(head.vars[v][0], Ptr) and self.var_types[v][0] == "arr":
                private_regions.add(head.vars[v][0].region.id)
        by_region = {}
        for (r1, o1, w1, p1, n1) in logs[0]:
            if not w1 or r1.id in private_regions or r1.kind == "local" and r1.name in d2:
                continue
            for (r2, o2, w2, p2, n2) in logs[1]:
                if r2 is not r1:
                    continue
                by_region.setdefault(r1, []).append(z3.Not(z3.And(p1, p2, o1 == o2)))
        st = head.copy()
        st.pc.append(i1 != i2)
        for a in self.auto_invariant_cache or []:
            if getattr(a, "assume_only", False) and a.ivar == ivar:
                # i1 = a + n1*e, i2 = a + n2*e with e > 0 and n1 != n2: the values differ by at least e
                st.pc.append(z3.Or(i1 - i2 >= a.step, i2 - i1 >= a.step))
        for r, goals in sorted(by_region.items(), key=lambda kv: kv[0].id):
            self.oblige(st, "omp-drf", node, z3.And(*goals) if len(goals) > 1 else goals[0],
                        label="%s:%s" % (tag, r.name))
        self.assumptions_used.add("omp-drf-meta")

    auto_invariant_cache = None

    def reduction_form_ok(self, body, v):
        ok = [True]

        def walk(n):
            k = n.get("kind")
            if k == "DeclRefExpr" and n["referencedDecl"]["name"] == v:
                ok[0] = False
                return
            if k == "CompoundAssignOperator" and n.get("opcode") in ("+=", "-="):
                t = kids(n)[0]
                if t.get("kind") == "DeclRefExpr" and t["referencedDecl"]["name"] == v:
                    walk(kids(n)[1])
                    return
            if k == "UnaryOperator" and n.get("opcode") in ("++", "--"):
                t = kids(n)[0]
                if t.get("kind") == "DeclRefExpr" and t["referencedDecl"]["name"] == v:
                    return
            if k == "BinaryOperator" and n.get("opcode") == "=":
                t, r = kids(n)
                if t.get("kind") == "DeclRefExpr" and t["referencedDecl"]["name"] == v:
                    while r.get("kind") == "ParenExpr":
                        r = kids(r)[0]
                    if r.get("kind") == "BinaryOperator" and r.get("opcode") == "+":
                        a, b = kids(r)
                        sa = a
                        while sa.get("kind") in ("ImplicitCastExpr", "ParenExpr"):
                            sa = kids(sa)[0]
                        if sa.get("kind") == "DeclRefExpr" and sa["referencedDecl"]["name"] == v:
                            walk(b)
                            return
            for c in kids(n):
                walk(c)
        walk(body)
        return ok[0]

    # ------------------------------------------------------------------ whole function
    in_parallel = False

    def run(self):
        self.heap_owned = set()
        self.return_states = []
        merge.executor = self
        st = self.setup()
        body = [c for c in kids(self.node) if c.get("kind") == "CompoundStmt"][0]
        ex = self.exec_stmt(st, body)
        end = ex.pop("fall", None)
        for key in ex:
            raise Unsupported("control leaves function body by %s" % (key,))
        ends = [(s_, n_) for s_, n_ in self.return_states if not dead(s_)]
        if end is not None and not dead(end):
            ends.append((end, None))
        self.end = ends[-1][0] if ends else None
        if not ends:
            self.notes.append("function exit unreachable")
            return
        # every way of leaving the function is checked against the postcondition separately
        for i, (s_, n_) in enumerate(ends):
            self.exit_tag = "" if len(ends) == 1 else ("ret%d:" % i)
            self.check_exit(s_)

    def check_exit(self, end):
        c = self.c
        result = None
        if end.retval is not None:
            rv = end.retval
            rt = ct.parse(self.node["type"]["qualType"].split("(")[0])
            if isinstance(rv, Sc):
                rv = self.convert(end, rv, rt, self.node)
                result = rv.t if rv.ct != BOOL else smt.integer(rv.t)
            else:
                result = ArrView(self, end, rv) if rv.region is not None else None
        ns = self.namespace(end, self.entry, result=result, formals_at_entry=True)
        for tag, s in self.clauses(c.asserts.get("end", [])):
            g = K.evaluate(s, ns)
            self.oblige(end, "assert", None, g, label=self.exit_tag + "end:" + norm_text(s), prop=tag)
            self.fact(end, g)
        for i, (prop, txt) in enumerate(self.clauses(c.ensures)):
            self.oblige(end, "ensures", None, K.evaluate(txt, ns), label=self.exit_tag + norm_text(txt), prop=prop)
        for name, rng in c.outputs.items():
            lo, hi = [K.evaluate(x, ns) for x in rng.split("..")]
            view = ns[name]
            self.oblige(end, "output-defined", None, smt.forall(lo, hi, lambda q: view.defined(q)),
                        label="%s%s[%s]" % (self.exit_tag, name, norm_text(rng)))
        # frame: pointer parameters not listed in assigns keep their content
        for name in self.param_names:
            v, d = self.entry.vars[name]
            if isinstance(v, Ptr) and v.region.elem != "ptr" and name not in c.assigns:
                m0, m1 = self.entry.mem[v.region.id], end.mem[v.region.id]
                if not m0.vals.eq(m1.vals):
                    self.oblige(end, "frame", None, m0.vals == m1.vals, label=self.exit_tag + name)
                if not z3.is_true(simp(m1.alive)):
                    self.oblige(end, "frame", None, m1.alive, label=self.exit_tag + name + ":freed")
        # heap: everything allocated here and not handed out is freed
        ret_region = end.retval.region.id if isinstance(end.retval, Ptr) and end.retval.region is not None else None
        for rid in sorted(self.heap_owned):
            if rid == ret_region or rid not in end.mem:
                continue
            reg = self.region_by_id.get(rid)
            self.oblige(end, "leak", None, z3.Not(end.mem[rid].alive),
                        label=self.exit_tag + (getattr(reg, "label", None) or (reg.name if reg else "heap")))


def install(cls):
    for k, v in StmtMixin.__dict__.items():
        if not k.startswith("__"):
            setattr(cls, k, v)
