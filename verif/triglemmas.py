"""Trusted real-analysis facts about the elementary functions, instantiated per occurring argument
(never quantified, never guessed by the solver).  Each family is listed in the evidence as trusted.

 T1  sin(x)^2 + cos(x)^2 = 1
 T2  for (a,b) != (0,0), r = sqrt(a^2+b^2):  sin(atan2(a,b)) = a/r, cos(atan2(a,b)) = b/r
 T3  half angle: sin(x/2)^2 = (1-cos x)/2, cos(x/2)^2 = (1+cos x)/2, 2 sin(x/2) cos(x/2) = sin x
 T4  a >= 0 => atan2(a,b) in [0,pi] => sin(atan2(a,b)/2) >= 0 and cos(atan2(a,b)/2) >= 0
 T5  angle addition: sin(x+y), cos(x+y)
 T6  sin(-x) = -sin x, cos(-x) = cos x
"""
import z3
from . import smt


def _is_atan2(t):
    return z3.is_app(t) and t.decl().name() == "atan2" and t.num_args() == 2


def facts_for_angle(x):
    """facts about sin_f(x), cos_f(x) for the (simplified) argument term x"""
    out = []
    x = z3.simplify(x)
    s, c = smt.sin_f(x), smt.cos_f(x)
    out.append(s * s + c * c == 1)
    if _is_atan2(x):
        a, b = x.arg(0), x.arg(1)
        r = smt.sqrt_f(a * a + b * b)
        out.append(z3.Implies(z3.Or(a != 0, b != 0), z3.And(r > 0, r * r == a * a + b * b, s * r == a, c * r == b)))
    # x = (1/2) * atan2(a, b)
    if z3.is_app(x) and x.decl().kind() == z3.Z3_OP_MUL and x.num_args() == 2:
        k, y = x.arg(0), x.arg(1)
        if z3.is_rational_value(k) and k.numerator_as_long() == 1 and k.denominator_as_long() == 2:
            s2, c2 = smt.sin_f(y), smt.cos_f(y)
            out.append(s2 * s2 + c2 * c2 == 1)
            out.append(z3.And(2 * s * s == 1 - c2, 2 * c * c == 1 + c2, 2 * s * c == s2))
            if _is_atan2(y):
                a, b = y.arg(0), y.arg(1)
                out.append(z3.Implies(a >= 0, z3.And(s >= 0, c >= 0)))
                out += facts_for_angle(y)
    return out
