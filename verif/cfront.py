"""cfront: extract the real C functions of /repo/src/*.c through clang's JSON AST.

Nothing is hand-copied: every run calls
    clang -fopenmp -fsyntax-only -Xclang -ast-dump=json -I$REPO/src -I/verif/stubs <file>
and hands the FunctionDecl nodes (macros already expanded, as compiled) to the
symbolic executor in csym.py.  The F2PY_WRAPPER blocks (source of
_cImageD11.pyf, i.e. what python callers can actually pass) are parsed from the
same file for array shapes and intents.
"""
import json
import os
import re
import subprocess
import hashlib

VERIF = os.path.dirname(os.path.dirname(os.path.abspath(__file__)))


def repo():
    return os.environ.get("REPO", "/repo")


class CFile:
    def __init__(self, path):
        self.path = path
        self.name = os.path.basename(path)
        with open(path, "rb") as f:
            self.src = f.read()
        self.sha = hashlib.sha256(self.src).hexdigest()[:16]
        # -DNDEBUG and -fopenmp: the flags setup.py / sysconfig actually compile the extension with
        cmd = ["clang", "-fopenmp", "-DNDEBUG", "-fsyntax-only", "-Xclang", "-ast-dump=json",
               "-I" + os.path.dirname(path), "-I" + os.path.join(VERIF, "stubs"), path]
        p = subprocess.run(cmd, capture_output=True)
        if p.returncode != 0:
            raise RuntimeError("clang failed on %s:\n%s" % (path, p.stderr.decode()[-2000:]))
        self.ast = json.loads(p.stdout)
        self.functions = {}
        self.enums = {}
        self.typedefs = {}
        self._index()
        self.f2py = parse_f2py_blocks(self.src.decode("utf-8", "replace"))

    def _index(self):
        defined = set(re.findall(rb"^[A-Za-z_][A-Za-z0-9_ \*]*?\b([A-Za-z_][A-Za-z0-9_]*)\s*\(",
                                 self.src, re.M))
        for n in self.ast.get("inner", []):
            k = n.get("kind")
            if k == "FunctionDecl":
                body = [c for c in n.get("inner", []) if c.get("kind") == "CompoundStmt"]
                if not body:
                    continue
                name = n["name"]
                off = _begin_offset(body[0])
                if off is None or off >= len(self.src) or self.src[off:off + 1] != b"{":
                    continue
                if name.encode() not in defined:
                    continue
                self.functions[name] = n
            elif k == "EnumDecl":
                val = -1
                for c in n.get("inner", []):
                    if c.get("kind") == "EnumConstantDecl":
                        v = _enum_value(c)
                        val = v if v is not None else val + 1
                        self.enums[c["name"]] = val
            elif k == "TypedefDecl":
                self.typedefs[n["name"]] = n["type"].get("qualType")

    def text(self, node):
        b, e = node_span(node)
        if b is None or e is None or e < b or e > len(self.src):
            return node.get("kind", "?")
        return self.src[b:e].decode("utf-8", "replace")

    def line_of(self, off):
        return self.src.count(b"\n", 0, off) + 1


def _enum_value(c):
    for i in c.get("inner", []):
        v = _const_int(i)
        if v is not None:
            return v
    return None


def _const_int(n):
    k = n.get("kind")
    if k == "IntegerLiteral":
        return int(n["value"])
    if k == "ConstantExpr" and "value" in n:
        return int(n["value"])
    for c in n.get("inner", []):
        v = _const_int(c)
        if v is not None:
            return v
    return None


def _loc_offset(loc, end=False):
    if not loc:
        return None
    if "expansionLoc" in loc:
        loc = loc["expansionLoc"]
    if "offset" not in loc:
        return None
    return loc["offset"] + (loc.get("tokLen", 0) if end else 0)


def _begin_offset(node):
    r = node.get("range")
    if not r:
        return None
    return _loc_offset(r.get("begin"))


def node_span(node):
    r = node.get("range")
    if not r:
        return None, None
    return _loc_offset(r.get("begin")), _loc_offset(r.get("end"), end=True)


def norm_text(s, maxlen=70):
    s = re.sub(r"/\*.*?\*/", "", s, flags=re.S)
    s = re.sub(r"//[^\n]*", "", s)
    s = re.sub(r"\s+", "", s)
    if len(s) > maxlen:
        s = s[:maxlen - 9] + "~" + hashlib.sha1(s.encode()).hexdigest()[:8]
    return s


# ---------------------------------------------------------------- F2PY blocks

_DECL = re.compile(r"^\s*([a-z][a-z0-9 \*\(\)=]*?)\s*(?:,\s*(.*?))?\s*::\s*(.*)$", re.I)


def _split_top(s):
    out, depth, cur = [], 0, ""
    for ch in s:
        if ch == "(":
            depth += 1
        elif ch == ")":
            depth -= 1
        if ch == "," and depth == 0:
            out.append(cur.strip())
            cur = ""
        else:
            cur += ch
    if cur.strip():
        out.append(cur.strip())
    return out


def parse_f2py_blocks(text):
    """returns {function name: {'args':[names in wrapper order], 'vars':{name:{type,intent,dims,depend,init}}}}"""
    res = {}
    for m in re.finditer(r"F2PY_WRAPPER_START(.*?)F2PY_WRAPPER_END", text, re.S):
        body = m.group(1)
        body = re.sub(r"&\s*\n\s*", " ", body)
        hm = re.search(r"(function|subroutine)\s+([A-Za-z_0-9]+)\s*\(([^)]*)\)", body)
        if not hm:
            continue
        name = hm.group(2)
        args = [a.strip() for a in hm.group(3).split(",") if a.strip()]
        vars_ = {}
        threadsafe = False
        for line in body.splitlines():
            line = line.split("!")[0].rstrip()
            if not line.strip():
                continue
            if line.strip() == "threadsafe":
                threadsafe = True
            if "::" not in line:
                continue
            left, right = line.split("::", 1)
            parts = _split_top(left)
            typ = parts[0].strip().lower()
            attrs = [p.strip() for p in parts[1:]]
            intent = []
            depend = None
            dimattr = None
            for a in attrs:
                am = re.match(r"intent\s*\((.*)\)", a, re.I)
                if am:
                    intent += [x.strip().lower() for x in am.group(1).split(",")]
                am = re.match(r"depend\s*\((.*)\)", a, re.I)
                if am:
                    depend = am.group(1).strip()
                am = re.match(r"dimension\s*\((.*)\)", a, re.I)
                if am:
                    dimattr = [x.strip() for x in _split_top(am.group(1))]
                if a.lower() == "optional":
                    intent.append("optional")
            for item in _split_top(right):
                im = re.match(r"([A-Za-z_0-9]+)\s*(?:\((.*?)\))?\s*(?:=\s*(.*))?$", item.strip())
                if not im:
                    continue
                vname = im.group(1)
                dims = [x.strip() for x in _split_top(im.group(2))] if im.group(2) else dimattr
                vars_[vname] = dict(type=typ, intent=intent, dims=dims, depend=depend,
                                    init=(im.group(3) or None))
        res[name] = dict(args=args, vars=vars_, threadsafe=threadsafe, raw=body)
    return res


_cache = {}


def load(fname):
    path = os.path.join(repo(), "src", fname)
    key = (path, os.path.getmtime(path), os.path.getsize(path))
    if key not in _cache:
        _cache[key] = CFile(path)
    return _cache[key]
