"""Replay of counterexamples of C obligations on the real code.

The nine C sources of the extension are compiled from $REPO/src on every run (gcc -fopenmp -DNDEBUG, the
flags of setup.py; -D__INTEL_COMPILER=1 only empties the DLL_LOCAL visibility macro so that helper
functions can be called) into build/libreplay_plain.so and, with -fsanitize=address,undefined, into
build/libreplay_asan.so.  A function is called through ctypes in a subprocess with concrete arguments
taken from the solver's model (or from a seeded random search), and the contract's clauses are evaluated
on the observed result in the concrete interpretation of the contract language (exact rationals, equality
up to 1e-6 relative: far above rounding, far below any sign, index or constant error).
"""
import json
import os
import random
import subprocess
import sys
import tempfile
import time
from fractions import Fraction
import z3
from . import contract as K, ctypes_ as ct, cfront
from .csym import Ptr, Sc

VERIF = os.path.dirname(os.path.dirname(os.path.abspath(__file__)))
BUILD = os.path.join(VERIF, "build")
SRCS = "blobs cdiffraction cimaged11utils closest connectedpixels darkflat localmaxlabel sparse_image splat".split()
LIBASAN = "/usr/lib/gcc/x86_64-linux-gnu/12/libasan.so"
_built = {}
SAFETY_KINDS = {"bounds", "int-overflow", "div-zero", "float-to-int", "shift", "use-after-free", "double-free",
                "free-base", "free-nonheap", "null-deref", "alloc-size", "call.length", "realloc-base"}


def build(kind):
    if kind in _built:
        return _built[kind]
    os.makedirs(BUILD, exist_ok=True)
    # libraries left behind by forked children that were killed (their atexit hook never ran): remove those whose process is gone
    import re
    for fn in os.listdir(BUILD):
        m = re.match(r"libreplay_\w+_(\d+)\.so$", fn)
        if m and not os.path.exists("/proc/%s" % m.group(1)):
            try:
                os.unlink(os.path.join(BUILD, fn))
            except OSError:
                pass
    src = os.path.join(cfront.repo(), "src")
    out = os.path.join(BUILD, "libreplay_%s_%d.so" % (kind, os.getpid()))
    flags = ["-O2"] if kind == "plain" else ["-O1", "-g", "-fsanitize=address,undefined,float-cast-overflow", "-fno-sanitize-recover=all"]
    cmd = ["gcc"] + flags + ["-fopenmp", "-fPIC", "-shared", "-DNDEBUG", "-D__INTEL_COMPILER=1", "-w", "-I" + src] + \
          [os.path.join(src, s + ".c") for s in SRCS] + ["-o", out, "-lm"]
    p = subprocess.run(cmd, capture_output=True, text=True)
    if p.returncode != 0:
        raise RuntimeError("replay build failed: " + p.stderr[-1500:])
    _built[kind] = out
    import atexit
    atexit.register(lambda: os.path.exists(out) and os.unlink(out))
    return out


def cname(t):
    if t[0] == "int":
        return ("int%d" if t[2] else "uint%d") % t[1]
    if t[0] == "real":
        return t[1]
    raise ValueError(t)


def signature(ex):
    """[(name, 'scalar'|'array', ctype tuple, pointee tuple)] or None if the function cannot be called generically"""
    sig = []
    for p in [k for k in ex.node.get("inner", []) if k.get("kind") == "ParmVarDecl"]:
        t = ct.parse(p["type"]["qualType"])
        if t[0] in ("int", "real"):
            sig.append((p["name"], "scalar", t, None))
        elif t[0] == "ptr" and ct.base_scalar(t[1])[0] in ("int", "real"):
            sig.append((p["name"], "array", ct.base_scalar(t[1]), t[1]))
        else:
            return None
    rt = ct.parse(ex.node["type"]["qualType"].split("(")[0])
    if rt[0] not in ("int", "real", "void"):
        return None
    return sig, (None if rt[0] == "void" else rt)


def run_job(ex, inputs, kind="plain", threads=None, timeout=300):
    sg = signature(ex)
    if sg is None:
        return None
    sig, rt = sg
    args = []
    for name, k, t, pointee in sig:
        if k == "scalar":
            v = inputs[name]
            args.append(dict(kind="scalar", name=name, ctype=cname(t), value=(int(v) if t[0] == "int" else float(v))))
        else:
            vals = inputs[name]
            args.append(dict(kind="array", name=name, ctype=cname(t),
                             values=[int(x) if t[0] == "int" else float(x) for x in vals]))
    job = dict(lib=build(kind), function=ex.fname, args=args, restype=cname(rt) if rt else None, threads=threads)
    os.makedirs(os.path.join(BUILD, "jobs"), exist_ok=True)
    with tempfile.NamedTemporaryFile("w", suffix=".json", delete=False, dir=os.path.join(BUILD, "jobs")) as f:
        json.dump(job, f)
        path = f.name
    env = dict(os.environ)
    if kind == "asan":
        env["LD_PRELOAD"] = LIBASAN
        env["ASAN_OPTIONS"] = "detect_leaks=0:abort_on_error=0:exitcode=97:allocator_may_return_null=1"
        env["UBSAN_OPTIONS"] = "halt_on_error=1:exitcode=98:print_stacktrace=0"
    try:
        p = subprocess.run([sys.executable, os.path.join(VERIF, "verif", "creplay_runner.py"), path],
                           capture_output=True, text=True, timeout=timeout, env=env)
    except subprocess.TimeoutExpired:
        return dict(ok=False, timeout=True, stderr="timeout", result=None, returncode=None)
    finally:
        os.unlink(path)
    res = None
    for line in p.stdout.splitlines():
        if line.startswith("REPLAY-RESULT "):
            res = json.loads(line[len("REPLAY-RESULT "):])
    return dict(ok=p.returncode == 0 and res is not None, returncode=p.returncode, stderr=p.stderr[-3000:], result=res)


def sanitizer_report(run):
    if run is None:
        return None
    e = run.get("stderr") or ""
    for marker in ("ERROR: AddressSanitizer", "runtime error:", "AddressSanitizer:DEADLYSIGNAL"):
        if marker in e:
            i = e.index(marker)
            return e[i:i + 400]
    if run.get("returncode") in (97, 98) or (run.get("returncode") is not None and run["returncode"] < 0):
        return "process ended with code %s: %s" % (run["returncode"], e[-300:])
    return None


# ----------------------------------------------------------------- concrete contract evaluation

class ConcView:
    def __init__(self, vals, off, pointee):
        self.vals, self.off_, self.pointee = vals, off, pointee

    def __getitem__(self, i):
        if isinstance(i, tuple):
            v = self
            for k in i:
                v = v[k]
            return v
        t = self.pointee
        off = self.off_ + int(i) * ct.nscalars(t)
        if t[0] == "arr":
            return ConcView(self.vals, off, t[1])
        if off < 0 or off >= len(self.vals):
            raise K.Borderline()       # clause looks outside the buffer for this sample (guarded elsewhere): skip sample
        v = self.vals[off]
        return v if isinstance(v, int) else Fraction(float(v))

    def defined(self, i):
        return True

    @property
    def length(self):
        return len(self.vals) - self.off_

    alive = True


class _NS:
    def __init__(self, d):
        self.__dict__.update(d)


def conc_namespace(ex, inputs, outputs, result):
    sig, rt = signature(ex)
    cur, old = dict(ex.cf.enums), {}
    for name, k, t, pointee in sig:
        if k == "scalar":
            v = inputs[name]
            v = int(v) if t[0] == "int" else Fraction(float(v))
            cur[name] = v
            old[name] = v
        else:
            conv = (lambda x: int(x)) if t[0] == "int" else (lambda x: float(x))
            old[name] = ConcView([conv(x) for x in inputs[name]], 0, pointee)
            cur[name] = ConcView([conv(x) for x in (outputs or inputs)[name]], 0, pointee)
    cur["old"] = _NS(old)
    if result is not None:
        cur["result"] = result if isinstance(result, int) else Fraction(float(result))
    cur["defined"] = lambda a, i: True
    cur.setdefault("length", lambda a: a.length)
    cur["len_"] = lambda a: a.length
    cur["alive"] = lambda a: True
    cur["isdef"] = lambda n: True
    for g in ex.c.ghosts:
        cur[g] = inputs.get("ghost_" + g, 0)
    return cur


def eval_clauses(ex, clauses, ns):
    """returns (failed clause texts, skipped count)"""
    failed, skipped = [], 0
    K.MODE = "conc"
    try:
        ns = dict(ns)
        try:
            for k, e in ex.c.locals_.items():
                ns[k] = K.evaluate(e, ns)
        except (K.Borderline, K.ContractError):
            return [], len(clauses)
        for tag, txt in clauses:
            try:
                if not bool(K.evaluate(txt, ns)):
                    failed.append(txt)
            except K.Borderline:
                skipped += 1
            except K.ContractError as e:
                if "Borderline" in str(e) or "ZeroDivision" in str(e):
                    skipped += 1
                else:
                    raise
    finally:
        K.MODE = "sym"
    return failed, skipped


def requires_hold(ex, inputs):
    ns = conc_namespace(ex, inputs, None, None)
    cl = [(t, x) for t, x in ex.clauses(ex.c.requires)]
    failed, skipped = eval_clauses(ex, cl, ns)
    return not failed and not skipped


def check_run(ex, inputs, threads=None):
    """run the real function and evaluate the ensures clauses; returns dict(failed=[...], outputs, result) or None"""
    run = run_job(ex, inputs, "plain", threads=threads)
    if run is None or not run["ok"]:
        return dict(error=(run or {}).get("stderr", "not callable"), failed=[])
    out = run["result"]
    ns = conc_namespace(ex, inputs, out["arrays"], out["return"])
    failed, skipped = eval_clauses(ex, ex.clauses(ex.c.ensures), ns)
    return dict(failed=failed, skipped=skipped, outputs=out["arrays"], result=out["return"])


# ----------------------------------------------------------------- inputs

def _num(v):
    if z3.is_int_value(v):
        return v.as_long()
    if z3.is_rational_value(v):
        return float(Fraction(v.numerator_as_long(), v.denominator_as_long()))
    if z3.is_algebraic_value(v):
        return float(v.approx(20).as_fraction())
    if z3.is_true(v):
        return 1
    if z3.is_false(v):
        return 0
    raise ValueError("no numeric value: %s" % v)


def inputs_from_model(ex, model, maxlen=300000):
    sg = signature(ex)
    if sg is None:
        return None
    sig, rt = sg
    inputs = {}
    for name, k, t, pointee in sig:
        v, d = ex.entry.vars[name]
        if k == "scalar":
            inputs[name] = _num(model.eval(v.t, model_completion=True))
        else:
            m = ex.entry.mem[v.region.id]
            n = _num(model.eval(m.length, model_completion=True))
            if n > maxlen:
                return None
            inputs[name] = [_num(model.eval(z3.Select(m.vals, i), model_completion=True)) for i in range(n)]
    for g, sym in ex.ghost.items():
        inputs["ghost_" + g] = _num(model.eval(sym, model_completion=True))
    return inputs


def random_inputs(ex, rng, tries=200):
    sg = signature(ex)
    if sg is None:
        return None
    sig, rt = sg
    gen = ex.c.hints.get("gen")
    for _ in range(tries):
        if gen is not None:
            inputs = gen(rng)
        else:
            inputs = {}
            ns = dict(ex.cf.enums)
            for name, k, t, pointee in sig:
                if k == "scalar":
                    if t[0] == "int":
                        inputs[name] = rng.choice([0, 1, 2, 3, 5, 8]) if rng.random() < 0.9 else rng.randint(-2, 40)
                    else:
                        inputs[name] = rng.choice([0.0, 0.05, 0.1, 0.5, 1.0, -1.0, 2.5]) if rng.random() < 0.5 else rng.uniform(-3, 3)
                    ns[name] = inputs[name]
            ok = True
            for name, k, t, pointee in sig:
                if k != "array":
                    continue
                try:
                    K.MODE = "conc"
                    n = int(K.evaluate(str(ex.c.lens[name]), ns)) * ct.nscalars(pointee)
                except Exception:
                    ok = False
                    break
                finally:
                    K.MODE = "sym"
                if n < 0 or n > 100000:
                    ok = False
                    break
                if t[0] == "int":
                    inputs[name] = [rng.randint(-1, 4) for _ in range(n)]
                else:
                    inputs[name] = [round(rng.uniform(-2, 2), 3) for _ in range(n)]
            if not ok:
                continue
        try:
            if requires_hold(ex, inputs):
                return inputs
        except Exception:
            continue
    return None


# ----------------------------------------------------------------- entry points used by replay.py

def confirm(unitres, ob, model, seed=0, nrandom=120):
    """try to exhibit a failing input for obligation `ob` of a C unit on the real code"""
    ex = getattr(unitres, "ex", None)
    if ex is None or signature(ex) is None:
        return dict(confirmed=False, why="function is not callable through the generic replay (pointer-to-pointer or pointer result)")
    tried = []
    cands = []
    if model is not None:
        try:
            inp = inputs_from_model(ex, model)
            if inp is not None:
                cands.append(("solver-model", inp))
        except Exception as e:
            tried.append("model extraction failed: %s" % e)
    rng = random.Random(seed)
    for i in range(nrandom):
        cands.append(("seeded-random#%d" % i, None))
    for label, inp in cands:
        if inp is None:
            inp = random_inputs(ex, rng)
            if inp is None:
                tried.append("no random input satisfies the precondition")
                break
        else:
            try:
                if not requires_hold(ex, inp):
                    tried.append("%s: does not satisfy the concrete precondition (abstraction artefact)" % label)
                    continue
            except Exception as e:
                tried.append("%s: precondition not evaluable: %s" % (label, e))
                continue
        if ob.kind in SAFETY_KINDS or ob.kind.startswith("omp"):
            run = run_job(ex, inp, "asan", threads=(4 if ob.kind.startswith("omp") else None))
            rep = sanitizer_report(run)
            if rep:
                return dict(confirmed=True, source=label, inputs=inp, sanitizer=rep)
            if ob.kind in SAFETY_KINDS:
                continue
        res = check_run(ex, inp)
        if res.get("failed"):
            return dict(confirmed=True, source=label, inputs=inp, failed_clauses=res["failed"],
                        observed=dict(result=res.get("result"),
                                      outputs={k: v[:40] for k, v in (res.get("outputs") or {}).items()}))
        if ob.kind.startswith("omp") or "omp" in ob.kind:
            # schedule dependence: several thread counts must agree with one thread
            base = run_job(ex, inp, "plain", threads=1)
            for rep_i in range(10):
                other = run_job(ex, inp, "plain", threads=8)
                if base and other and base["ok"] and other["ok"] and base["result"] != other["result"]:
                    return dict(confirmed=True, source=label, inputs=inp, failed_clauses=["result with 8 threads differs from 1 thread"])
    return dict(confirmed=False, why="; ".join(tried[:4]) or "no failing input among solver model and %d seeded random inputs" % nrandom)


def cross_check(unitres, seed, n):
    """run-time contract check of the real function on seeded random inputs (used as a guard against wrong contracts
    and as the falsification search): returns dict(evaluations, failures=[...])"""
    ex = getattr(unitres, "ex", None)
    out = dict(evaluations=0, failures=[], skipped=0)
    if ex is None or signature(ex) is None:
        return out
    rng = random.Random(seed)
    for i in range(n):
        inp = random_inputs(ex, rng)
        if inp is None:
            break
        res = check_run(ex, inp)
        out["evaluations"] += 1
        if res.get("error"):
            out["failures"].append(dict(inputs=inp, error=res["error"][-300:]))
        elif res.get("failed"):
            out["failures"].append(dict(inputs=inp, failed_clauses=res["failed"]))
        out["skipped"] += res.get("skipped", 0)
    return out
