"""FnExec: the symbolic executor / VC generator for one C function (see csym.py)."""
import re
import z3
from . import smt, ctypes_ as ct, contract as K
from .cfront import norm_text, node_span
from .csym import (Unsupported, Region, Mem, Ptr, Sc, LV, State, Ob, arr_sort, ArrView, OldNS,
                   MAGIC, MAX_UNROLL)

BOOL = ("bool",)
INT = ("int", 32, True)
DOUBLE = ("real", "double")

# not rejected by ASan/UBSan (IEEE semantics: inf/nan), so outside C20; checked only with the functional contracts
SOFT_KINDS = {"fdiv-zero", "domain-sqrt", "domain-asin", "domain-acos", "domain-log"}

PURE_MATH = {"sqrt", "sin", "cos", "atan2", "fabs", "floor", "asin", "acos", "log", "exp", "sqrtf",
             "fabsf", "floorf", "ceil", "pow"}
DROPPED_CALLS = {"printf", "puts", "fprintf", "fflush", "putchar"}


def qual(node):
    t = node.get("type", {})
    return t.get("desugaredQualType") or t.get("qualType")


def ntype(node):
    t = node.get("type", {})
    for key in ("qualType", "desugaredQualType"):
        if key in t:
            try:
                return ct.parse(t[key])
            except ValueError:
                continue
    raise Unsupported("type of %s: %s" % (node.get("kind"), t))


def kids(node):
    return node.get("inner", [])


class FnExec:
    def __init__(self, cfile, fname, contract, prop=None, options=None):
        self.cf = cfile
        self.fname = fname
        self.node = cfile.functions[fname]
        self.c = contract
        self.prop = prop
        self.opt = options or {}
        self.mode = self.opt.get("mode", "full")     # 'safety': clauses tagged with a property are neither assumed nor checked
        K.SINK.reset()
        self.facts = []
        self.axioms = []
        self.obs = []
        self.names = {}
        self.loop_counter = 0
        self.loop_stack = []
        self.entry = None
        self.returns = []
        self.ghost = {}
        self.assumptions_used = set()
        self.access_log = None
        self.var_types = {}
        self.param_names = []
        self.regions = {}
        self.loop_keys_used = set()
        self.unrolled = []
        self.notes = []
        self.callees = set()
        self.region_by_id = {}
        self.dropped = set()
        self.heap_owned = set()
        self.omp_tid = None
        self.exit_tag = ""
        self.return_states = []

    def clauses(self, lst):
        """(tag, text) pairs of a contract clause list, tagged (functional) ones dropped in safety mode"""
        out = []
        for c in lst:
            tag, txt = (c if isinstance(c, tuple) else (None, c))
            if tag is not None and self.mode == "safety":
                continue
            out.append((tag, txt))
        return out

    # ------------------------------------------------------------------ utilities
    def const_int(self, t):
        if isinstance(t, int):
            return t
        s = z3.simplify(t)
        if z3.is_int_value(s):
            return s.as_long()
        return None

    def fact(self, state, f):
        f = smt.boolean(f)
        pc = state.pcterm() if state is not None else z3.BoolVal(True)
        if z3.is_true(pc):
            self.facts.append(f)
        else:
            self.facts.append(z3.Implies(pc, f))

    def drain_axioms(self):
        # instances of definitions of spec functions: valid at every program point
        self.axioms.extend(K.SINK.drain())

    def oblige(self, state, kind, node, goal, label=None, prop=None):
        if self.mode == "safety" and kind in SOFT_KINDS:
            return
        goal = smt.boolean(goal)
        g = z3.simplify(goal)
        trivial = z3.is_true(g)
        self.drain_axioms()
        text = label if label is not None else (norm_text(self.cf.text(node)) if node is not None else "")
        if kind == "int-overflow" and text in self.c.iteration_counters and node is not None and \
                node.get("kind") == "UnaryOperator" and node.get("opcode") == "++" and self.loop_stack:
            self.assumptions_used.add("iteration-counter:%s:%s: %s" % (self.fname, text, self.c.iteration_counters[text]))
            return
        lp = "".join("L%d." % k for k in self.loop_stack)
        base = "%s.%s.%s@%s%s" % (self.cf.name, self.fname, kind, lp, text)
        n = self.names.get(base, 0) + 1
        self.names[base] = n
        name = base if n == 1 else "%s#%d" % (base, n)
        line = None
        if node is not None:
            b, _ = node_span(node)
            if b is not None:
                line = self.cf.line_of(b)
        ob = Ob(name, kind, self.cf.name + ":" + self.fname, len(self.facts), state.pcterm(), goal,
                text, line, prop or self.prop)
        ob.trivial = trivial
        self.obs.append(ob)

    def fresh_like(self, name, ctype):
        if ctype[0] == "real":
            return smt.fresh(name, smt.R)
        return smt.fresh(name, smt.I)

    # ------------------------------------------------------------------ setup
    def setup(self):
        st = State()
        c = self.c
        ns_len = dict(self.cf.enums)
        params = [k for k in kids(self.node) if k.get("kind") == "ParmVarDecl"]
        # scalars first (lengths refer to them)
        for p in params:
            t = ct.parse(p["type"]["qualType"])
            self.var_types[p["name"]] = t
            self.param_names.append(p["name"])
            if t[0] in ("int", "real"):
                sym = z3.Const(p["name"], smt.R if t[0] == "real" else smt.I)
                st.vars[p["name"]] = (Sc(sym, t), z3.BoolVal(True))
                ns_len[p["name"]] = sym
                if t[0] == "int":
                    lo, hi = ct.int_range(t)
                    self.facts.append(z3.And(sym >= lo, sym <= hi))
        for g in c.ghosts:
            self.ghost[g] = z3.Int("ghost_" + g)
            ns_len[g] = self.ghost[g]
        for p in params:
            t = self.var_types[p["name"]]
            if t[0] == "ptr":
                st.vars[p["name"]] = (self._make_param_region(st, p["name"], t, ns_len), z3.BoolVal(True))
            elif t[0] not in ("int", "real"):
                raise Unsupported("parameter type %s" % (t,))
        self.facts.extend(smt.GROUND_FACTS)
        self.entry = st.copy()
        self.state0 = st
        # preconditions
        for tag, r in self.clauses(c.requires):
            self.facts.append(smt.boolean(K.evaluate(r, self.namespace(st, st))))
        self.drain_axioms()
        self.nfacts_pre = len(self.facts)
        return st

    def _make_param_region(self, st, name, t, ns_len, depth=0):
        pointee = t[1]
        base = ct.base_scalar(pointee)
        c = self.c
        if name not in c.lens:
            raise Unsupported("no length given for pointer parameter %s" % name)
        length = smt.integer(K.evaluate(str(c.lens[name]), ns_len)) * ct.nscalars(pointee)
        reg = Region(name, base, "param")
        self.regions[name] = reg
        self.facts.append(length >= 0)
        if base[0] == "ptr":
            inner_name = name + "[0]"
            inner = self._make_param_region(st, inner_name, base, ns_len, depth + 1)
            st.mem[reg.id] = Mem(None, None, z3.BoolVal(True), length, {0: inner})
            return Ptr(reg, z3.IntVal(0), pointee)
        vals = z3.Const("%s@0" % name, arr_sort(reg.elem))
        d = c.defined.get(name, True)
        if d is True:
            defd = z3.K(smt.I, z3.BoolVal(True))
        elif d is False:
            defd = z3.Const("%s@def0" % name, z3.ArraySort(smt.I, smt.B))
        else:
            lo, hi = [K.evaluate(x, ns_len) for x in d.split("..")]
            q = z3.Int("q!def")
            defd = z3.Lambda([q], z3.And(smt.integer(lo) <= q, q < smt.integer(hi)))
        st.mem[reg.id] = Mem(vals, defd, z3.BoolVal(True), length)
        if base[0] == "int":
            lo, hi = ct.int_range(base)
            q = smt.fresh("q", smt.I)
            # every defined cell of an integer buffer holds a value of its C type
            self.facts.append(z3.ForAll([q], z3.And(z3.Select(vals, q) >= lo, z3.Select(vals, q) <= hi)))
        return Ptr(reg, z3.IntVal(0), pointee)

    def decay(self, p):
        if p.pointee[0] == "arr" and p.region is not None and p.region.kind == "local":
            return Ptr(p.region, p.off, p.pointee[1])
        return p

    # ------------------------------------------------------------------ contract namespaces
    def namespace(self, state, old_state, result=None, formals_at_entry=False, extra=None):
        ns = dict(self.cf.enums)
        ns.update(self.ghost)
        src = state

        def bind(s, into):
            for name, (v, d) in s.vars.items():
                if isinstance(v, Sc):
                    t = v.t
                    into[name] = t
                elif isinstance(v, Ptr) and v.region is not None:
                    into[name] = ArrView(self, s, self.decay(v))
        bind(src, ns)
        if formals_at_entry:
            for name in self.param_names:
                v, d = self.entry.vars[name]
                if isinstance(v, Sc):
                    ns[name] = v.t
                else:
                    ns[name] = ArrView(self, state, v)
        oldd = {}
        bind(old_state, oldd)
        ns["old"] = OldNS(oldd)
        if result is not None:
            ns["result"] = result
        ns["defined"] = lambda a, i: a.defined(i)
        ns.setdefault("length", lambda a: a.length)
        ns["len_"] = lambda a: a.length
        ns["alive"] = lambda a: a.alive
        ns["isdef"] = lambda name: state.vars[name][1]
        if extra:
            ns.update(extra)
        # let-definitions
        for k, e in self.c.locals_.items():
            ns[k] = K.evaluate(e, ns)
        return ns

    # ------------------------------------------------------------------ memory
    def check_access(self, state, ptr, node, write, what="access"):
        if ptr.region is None:
            self.oblige(state, "null-deref", node, z3.BoolVal(False))
            raise Unsupported("dereference of NULL")
        m = state.mem[ptr.region.id]
        if ptr.region.ctype is None:
            raise Unsupported("access through untyped heap pointer")
        n = ct.nscalars(ptr.pointee) if ptr.pointee[0] != "arr" else 1
        self.oblige(state, "bounds", node, z3.And(ptr.off >= 0, ptr.off < m.length))
        if not z3.is_true(m.alive):
            self.oblige(state, "use-after-free", node, m.alive)
        if self.access_log is not None:
            self.access_log.append((ptr.region, ptr.off, write, state.pcterm(), node))

    def mem_read(self, state, ptr, node):
        self.check_access(state, ptr, node, False)
        m = state.mem[ptr.region.id]
        if ptr.region.elem == "ptr":
            k = self.const_int(ptr.off)
            if k is None or k not in m.cells:
                raise Unsupported("symbolic index into pointer array")
            return m.cells[k]
        self.oblige(state, "uninit", node, z3.Select(m.defd, ptr.off))
        return Sc(z3.Select(m.vals, ptr.off), ptr.region.ctype)

    def mem_write(self, state, ptr, val, node):
        self.check_access(state, ptr, node, True)
        m = state.mem[ptr.region.id]
        if ptr.region.elem == "ptr":
            k = self.const_int(ptr.off)
            if k is None:
                raise Unsupported("symbolic index into pointer array")
            m.cells[k] = val
            return
        t = self.convert(state, val, ptr.region.ctype, node).t
        m.vals = z3.Store(m.vals, ptr.off, t)
        if not (z3.is_K(m.defd) and z3.is_true(m.defd.arg(0))):
            m.defd = z3.Store(m.defd, ptr.off, z3.BoolVal(True))

    # ------------------------------------------------------------------ conversions
    def as_int(self, v):
        if isinstance(v, Sc):
            if v.ct == BOOL:
                return smt.integer(v.t)
            return v.t
        raise Unsupported("integer expected")

    def truth(self, v):
        if isinstance(v, Ptr):
            return z3.BoolVal(v.region is not None)
        if v.ct == BOOL:
            return v.t
        return v.t != 0

    def convert(self, state, v, to, node):
        """C conversion of scalar value v to type `to`"""
        if isinstance(v, Ptr):
            return v
        frm = v.ct
        if to == BOOL:
            return Sc(self.truth(v), BOOL)
        if frm == BOOL:
            t = smt.integer(v.t)
            frm = INT
            v = Sc(t, INT)
        if to[0] == "real":
            return Sc(smt.real(v.t), to)
        if to[0] == "int":
            lo, hi = ct.int_range(to)
            if frm[0] == "real":
                r = v.t
                self.oblige(state, "float-to-int", node, z3.And(r > lo - 1, r < hi + 1))
                if z3.is_app(r) and r.decl().name() == "rne":
                    self.facts.append(z3.IsInt(r))
                return Sc(smt.trunc_int(r), to)
            flo, fhi = ct.int_range(frm)
            if flo >= lo and fhi <= hi:
                return Sc(v.t, to)
            # narrowing / sign change: modular (implementation-defined in C, modular with gcc/clang)
            span = hi - lo + 1
            t = v.t
            w = (t - lo) % span + lo
            k = self.const_int(t)
            if k is not None:
                w = z3.IntVal((k - lo) % span + lo)
            return Sc(w, to)
        raise Unsupported("conversion to %s" % (to,))

    # ------------------------------------------------------------------ expressions
    def rvalue(self, state, node):
        v = self.ev(state, node)
        if isinstance(v, LV):
            return self.load(state, v, node)
        return v

    def load(self, state, lv, node):
        if lv.kind == "var":
            if lv.name not in state.vars:
                raise Unsupported("unknown variable %s" % lv.name)
            v, d = state.vars[lv.name]
            if not z3.is_true(d):
                self.oblige(state, "uninit", node, d, label="var:" + lv.name + ":" + norm_text(self.cf.text(node)))
            return v
        if lv.ctype[0] == "arr":
            return Ptr(lv.ptr.region, lv.ptr.off, lv.ctype[1])
        return self.mem_read(state, lv.ptr, node)

    def store(self, state, lv, val, node):
        if lv.kind == "var":
            t = self.var_types[lv.name]
            if t[0] == "ptr":
                if not isinstance(val, Ptr):
                    raise Unsupported("non-pointer assigned to pointer")
                state.vars[lv.name] = (Ptr(val.region, val.off, t[1]) if val.region is not None and val.region.ctype is not None else val, z3.BoolVal(True))
            else:
                state.vars[lv.name] = (self.convert(state, val, t, node), z3.BoolVal(True))
            return
        if lv.ctype[0] == "arr":
            raise Unsupported("assignment to array")
        self.mem_write(state, lv.ptr, val, node)

    def ev(self, state, node):
        k = node.get("kind")
        m = getattr(self, "ev_" + k, None)
        if m is None:
            raise Unsupported("expression kind %s" % k)
        return m(state, node)

    def ev_ParenExpr(self, state, node):
        return self.ev(state, kids(node)[0])

    def ev_ConstantExpr(self, state, node):
        return self.ev(state, kids(node)[0])

    def ev_IntegerLiteral(self, state, node):
        return Sc(z3.IntVal(int(node["value"])), ntype(node))

    def ev_CharacterLiteral(self, state, node):
        return Sc(z3.IntVal(int(node["value"])), INT)

    def ev_FloatingLiteral(self, state, node):
        txt = self.cf.text(node)
        val = node["value"]
        try:
            f = float(val)
        except ValueError:
            raise Unsupported("float literal %s" % val)
        from fractions import Fraction
        fr = Fraction(f)
        return Sc(z3.RealVal(str(fr)) if fr.denominator != 1 else z3.RealVal(fr.numerator), ntype(node))

    def ev_StringLiteral(self, state, node):
        return Ptr(Region("strlit", ("int", 8, True), "const"), z3.IntVal(0), ("int", 8, True))

    def ev_DeclRefExpr(self, state, node):
        rd = node["referencedDecl"]
        if rd["kind"] == "EnumConstantDecl":
            return Sc(z3.IntVal(self.cf.enums[rd["name"]]), INT)
        if rd["kind"] == "FunctionDecl":
            return ("fn", rd["name"])
        name = rd["name"]
        if name not in self.var_types:
            raise Unsupported("reference to unknown/global variable %s" % name)
        t = self.var_types[name]
        if t[0] == "arr":
            v, d = state.vars[name]
            return LV("mem", ptr=Ptr(v.region, v.off, t), ctype=t)
        return LV("var", name=name, ctype=t)

    def ev_UnaryExprOrTypeTraitExpr(self, state, node):
        if node.get("name") != "sizeof":
            raise Unsupported("type trait %s" % node.get("name"))
        if "argType" in node:
            t = ct.parse(node["argType"]["qualType"])
        else:
            t = ntype(kids(node)[0])
        return Sc(z3.IntVal(ct.sizeof(t)), ntype(node))

    def ev_ImplicitCastExpr(self, state, node):
        return self.cast(state, node)

    def ev_CStyleCastExpr(self, state, node):
        return self.cast(state, node)

    def cast(self, state, node):
        ck = node.get("castKind")
        sub = kids(node)[0]
        if ck == "LValueToRValue":
            lv = self.ev(state, sub)
            if not isinstance(lv, LV):
                return lv
            return self.load(state, lv, sub)
        if ck == "ToVoid":
            if sub.get("kind") == "UnaryExprOrTypeTraitExpr":
                return None
            self.rvalue(state, sub)
            return None
        if ck == "FunctionToPointerDecay" or ck == "BuiltinFnToFnPtr":
            return self.ev(state, sub)
        if ck == "ArrayToPointerDecay":
            lv = self.ev(state, sub)
            if isinstance(lv, Ptr):
                return lv
            if not isinstance(lv, LV) or lv.kind != "mem":
                raise Unsupported("array decay of non-array")
            return Ptr(lv.ptr.region, lv.ptr.off, lv.ctype[1])
        v = self.rvalue(state, sub)
        if ck in ("NoOp",):
            return v
        if ck == "NullToPointer":
            return Ptr(None, z3.IntVal(0), ntype(node)[1])
        if ck == "BitCast":
            to = ntype(node)
            if not isinstance(v, Ptr):
                raise Unsupported("bitcast of non-pointer")
            if to[0] != "ptr":
                raise Unsupported("bitcast to %s" % (to,))
            if v.region is None:
                return Ptr(None, v.off, to[1])
            if v.region.ctype is None:
                if to[1] == ("void",):
                    return v
                reg = v.region
                reg.ctype = ct.base_scalar(to[1])
                m = state.mem[reg.id]
                sz = ct.sizeof(reg.ctype)
                m.length = reg.nbytes / sz if self.const_int(reg.nbytes) is None else z3.IntVal(self.const_int(reg.nbytes) // sz)
                if m.vals is None or m.vals.sort() != arr_sort(reg.elem):
                    zero = getattr(reg, "zeroed", False)
                    if zero:
                        m.vals = z3.K(smt.I, z3.RealVal(0) if reg.elem == "real" else z3.IntVal(0))
                    else:
                        m.vals = smt.fresh(reg.name + "@v", arr_sort(reg.elem))
                return Ptr(reg, v.off, to[1])
            if to[1] == ("void",):
                return v
            if ct.base_scalar(to[1]) != v.region.ctype and not (
                    ct.base_scalar(to[1])[0] == "int" and v.region.ctype[0] == "int" and
                    ct.sizeof(ct.base_scalar(to[1])) == ct.sizeof(v.region.ctype)):
                raise Unsupported("pointer cast changes element type %s -> %s" % (v.region.ctype, to[1]))
            return Ptr(v.region, v.off, to[1])
        if ck in ("IntegralCast", "IntegralToFloating", "FloatingToIntegral", "FloatingCast",
                  "IntegralToBoolean", "FloatingToBoolean", "BooleanToSignedIntegral"):
            return self.convert(state, v, ntype(node), node)
        if ck == "PointerToBoolean":
            return Sc(self.truth(v), BOOL)
        raise Unsupported("cast kind %s" % ck)

    def ev_ArraySubscriptExpr(self, state, node):
        a, b = kids(node)
        base = self.rvalue(state, a)
        idx = self.rvalue(state, b)
        if isinstance(idx, Ptr):
            base, idx = idx, base
        if not isinstance(base, Ptr):
            raise Unsupported("subscript of non-pointer")
        i = self.as_int(idx)
        t = base.pointee
        off = z3.simplify(base.off + i * ct.nscalars(t))
        return LV("mem", ptr=Ptr(base.region, off, t), ctype=t)

    def is_magic(self, node):
        """matches the expanded conv_double_to_int_fast idiom ((x + MAGIC) - MAGIC); returns node of x"""
        n = node
        while n.get("kind") == "ParenExpr":
            n = kids(n)[0]
        if n.get("kind") != "BinaryOperator" or n.get("opcode") != "-":
            return None
        l, r = kids(n)
        if r.get("kind") != "FloatingLiteral":
            return None
        try:
            if float(r["value"]) != MAGIC:
                return None
        except ValueError:
            return None
        while l.get("kind") == "ParenExpr":
            l = kids(l)[0]
        if l.get("kind") != "BinaryOperator" or l.get("opcode") != "+":
            return None
        x, mm = kids(l)
        if mm.get("kind") != "FloatingLiteral" or float(mm["value"]) != MAGIC:
            return None
        return x

    def ev_BinaryOperator(self, state, node):
        op = node["opcode"]
        a, b = kids(node)
        if op == "=":
            lv = self.ev(state, a)
            v = self.rvalue(state, b)
            if not isinstance(lv, LV):
                raise Unsupported("assignment to non-lvalue")
            self.store(state, lv, v, node)
            return self.load_quiet(state, lv)
        if op == ",":
            self.rvalue(state, a)
            return self.rvalue(state, b)
        if op in ("&&", "||"):
            va = self.truth(self.rvalue(state, a))
            guard = va if op == "&&" else z3.Not(va)
            try:
                self.no_side_effects(b)
                pure = True
            except Unsupported:
                pure = False
            if pure:
                save = list(state.pc)
                state.pc.append(guard)
                vb = self.truth(self.rvalue(state, b))
                state.pc = save
            else:
                from .csym_stmt import merge
                s1 = state.copy()
                s1.pc.append(guard)
                vb = self.truth(self.rvalue(s1, b))
                s2 = state.copy()
                s2.pc.append(z3.Not(guard))
                self._adopt(state, merge(s1, s2))
            return Sc(z3.And(va, vb) if op == "&&" else z3.Or(va, vb), BOOL)
        x = self.is_magic(node)
        if x is not None:
            xv = self.rvalue(state, x)
            self.assumptions_used.add("rne_magic")
            lim = 2 ** 51
            self.oblige(state, "rne-range", node, z3.And(xv.t <= lim, xv.t >= -lim))
            if self.c.rne == "exact":
                return Sc(smt.rne_exact(xv.t), DOUBLE)
            r = smt.rne_u(xv.t)
            self.facts.append(z3.IsInt(r))
            self.facts.append(z3.And(xv.t - r <= z3.Q(1, 2), r - xv.t <= z3.Q(1, 2)))
            return Sc(r, DOUBLE)
        va = self.rvalue(state, a)
        vb = self.rvalue(state, b)
        return self.binop(state, op, va, vb, ntype(node), node)

    def load_quiet(self, state, lv):
        if lv.kind == "var":
            return state.vars[lv.name][0]
        if lv.ptr.region.elem == "ptr":
            return state.mem[lv.ptr.region.id].cells[self.const_int(lv.ptr.off)]
        return Sc(z3.Select(state.mem[lv.ptr.region.id].vals, lv.ptr.off), lv.ptr.region.ctype)

    def no_side_effects(self, node):
        k = node.get("kind")
        if k in ("CompoundAssignOperator",) or (k == "BinaryOperator" and node.get("opcode") == "=") or \
                (k == "UnaryOperator" and node.get("opcode") in ("++", "--")):
            raise Unsupported("side effect in short-circuit / conditional operand")
        if k == "CallExpr":
            nm = self.callee_name(node)
            if nm not in PURE_MATH:
                raise Unsupported("call in short-circuit / conditional operand")
        for c in kids(node):
            self.no_side_effects(c)

    def binop(self, state, op, va, vb, rt, node):
        if isinstance(va, Ptr) or isinstance(vb, Ptr):
            return self.ptr_binop(state, op, va, vb, rt, node)
        if op in ("<", ">", "<=", ">=", "==", "!="):
            x, y = va.t, vb.t
            if va.ct == BOOL:
                x = smt.integer(x)
            if vb.ct == BOOL:
                y = smt.integer(y)
            if x.sort() != y.sort():
                x, y = smt.real(x), smt.real(y)
            r = {"<": x < y, ">": x > y, "<=": x <= y, ">=": x >= y, "==": x == y, "!=": x != y}[op]
            return Sc(r, BOOL)
        if rt[0] == "real":
            x, y = smt.real(va.t), smt.real(vb.t)
            if op == "+":
                return Sc(x + y, rt)
            if op == "-":
                return Sc(x - y, rt)
            if op == "*":
                return Sc(x * y, rt)
            if op == "/":
                self.oblige(state, "fdiv-zero", node, y != 0)
                return Sc(x / y, rt)
            raise Unsupported("real operator %s" % op)
        if rt[0] == "int":
            x, y = self.as_int(va), self.as_int(vb)
            lo, hi = ct.int_range(rt)
            if op in ("+", "-", "*"):
                r = {"+": x + y, "-": x - y, "*": x * y}[op]
                kx, ky = self.const_int(x), self.const_int(y)
                if kx is not None and ky is not None:
                    r = z3.IntVal({"+": kx + ky, "-": kx - ky, "*": kx * ky}[op])
                if rt[2]:
                    self.oblige(state, "int-overflow", node, z3.And(r >= lo, r <= hi))
                    return Sc(r, rt)
                return Sc(r % (hi + 1), rt)
            if op in ("/", "%"):
                self.oblige(state, "div-zero", node, y != 0)
                if rt[2]:
                    self.oblige(state, "int-overflow", node, z3.Not(z3.And(x == lo, y == -1)))
                ky = self.const_int(y)
                if ky is not None and ky > 0:
                    q = z3.If(x >= 0, x / ky, -((-x) / ky))
                    r = q if op == "/" else x - ky * q
                else:
                    r = smt.tdiv(x, y) if op == "/" else smt.tmod(x, y)
                return Sc(r, rt)
            if op in ("<<", ">>"):
                ky = self.const_int(y)
                if ky is None:
                    raise Unsupported("shift by non-constant")
                if not (0 <= ky < rt[1]):
                    self.oblige(state, "shift", node, z3.BoolVal(False))
                if op == "<<":
                    r = x * (1 << ky)
                    if rt[2]:
                        self.oblige(state, "shift", node, z3.And(x >= 0, r <= hi))
                        return Sc(r, rt)
                    return Sc(r % (hi + 1), rt)
                self.oblige(state, "shift", node, x >= 0) if rt[2] else None
                return Sc(x / (1 << ky), rt)
            if op in ("&", "|", "^"):
                ky = self.const_int(y)
                if op == "&" and ky is not None and ky >= 0 and (ky & (ky + 1)) == 0:
                    self.oblige(state, "bitop", node, x >= 0)
                    return Sc(x % (ky + 1), rt)
                raise Unsupported("bit operator %s" % op)
        raise Unsupported("operator %s on %s" % (op, rt))

    def ptr_binop(self, state, op, va, vb, rt, node):
        if op in ("+", "-") and isinstance(va, Ptr) and isinstance(vb, Sc):
            i = self.as_int(vb)
            d = i * ct.nscalars(va.pointee)
            return Ptr(va.region, va.off + d if op == "+" else va.off - d, va.pointee)
        if op == "+" and isinstance(vb, Ptr) and isinstance(va, Sc):
            return Ptr(vb.region, vb.off + self.as_int(va) * ct.nscalars(vb.pointee), vb.pointee)
        if op in ("==", "!=") and isinstance(va, Ptr) and isinstance(vb, Ptr):
            if va.region is None or vb.region is None:
                same = (va.region is None) and (vb.region is None)
                return Sc(z3.BoolVal(same if op == "==" else not same), BOOL)
            if va.region is vb.region:
                r = va.off == vb.off
                return Sc(r if op == "==" else z3.Not(r), BOOL)
            return Sc(z3.BoolVal(op == "!="), BOOL)
        if op == "-" and isinstance(va, Ptr) and isinstance(vb, Ptr) and va.region is vb.region:
            return Sc((va.off - vb.off) / ct.nscalars(va.pointee), rt)
        raise Unsupported("pointer operator %s" % op)

    def ev_CompoundAssignOperator(self, state, node):
        op = node["opcode"][:-1]
        a, b = kids(node)
        lv = self.ev(state, a)
        cur = self.load(state, lv, a)
        vb = self.rvalue(state, b)
        if isinstance(cur, Ptr):
            r = self.ptr_binop(state, op, cur, vb, None, node)
        else:
            ctt = node.get("computeResultType", {}).get("qualType")
            crt = ct.parse(ctt) if ctt else lv.ctype
            clt = node.get("computeLHSType", {}).get("qualType")
            if clt:
                cur = self.convert(state, cur, ct.parse(clt), node)
            r = self.binop(state, op, cur, vb, crt, node)
        self.store(state, lv, r, node)
        return self.load_quiet(state, lv)

    def ev_UnaryOperator(self, state, node):
        op = node["opcode"]
        sub = kids(node)[0]
        if op in ("++", "--"):
            lv = self.ev(state, sub)
            cur = self.load(state, lv, sub)
            one = Sc(z3.IntVal(1), INT)
            if isinstance(cur, Ptr):
                new = self.ptr_binop(state, "+" if op == "++" else "-", cur, one, None, node)
            else:
                rt = cur.ct if cur.ct != BOOL else INT
                if rt[0] == "int" and rt[1] < 32:
                    rt2 = INT
                    new = self.binop(state, "+" if op == "++" else "-", cur, one, rt2, node)
                else:
                    new = self.binop(state, "+" if op == "++" else "-", cur, one, rt, node)
            self.store(state, lv, new, node)
            return cur if node.get("isPostfix") else self.load_quiet(state, lv)
        if op == "*":
            p = self.rvalue(state, sub)
            if not isinstance(p, Ptr):
                raise Unsupported("deref of non-pointer")
            return LV("mem", ptr=p, ctype=p.pointee)
        if op == "&":
            lv = self.ev(state, sub)
            if isinstance(lv, LV) and lv.kind == "mem":
                return Ptr(lv.ptr.region, lv.ptr.off, lv.ctype)
            if isinstance(lv, LV) and lv.kind == "var":
                return ("addr-of-var", lv.name)
            raise Unsupported("address-of")
        v = self.rvalue(state, sub)
        rt = ntype(node)
        if op == "-":
            if rt[0] == "real":
                return Sc(-smt.real(v.t), rt)
            x = self.as_int(v)
            lo, hi = ct.int_range(rt)
            if rt[2]:
                self.oblige(state, "int-overflow", node, x != lo)
                return Sc(-x, rt)
            return Sc((-x) % (hi + 1), rt)
        if op == "+":
            return v
        if op == "!":
            return Sc(z3.Not(self.truth(v)), BOOL)
        if op == "__extension__":
            return v
        raise Unsupported("unary %s" % op)

    def ev_ConditionalOperator(self, state, node):
        c, a, b = kids(node)
        vc = self.truth(self.rvalue(state, c))
        self.no_side_effects(a)
        self.no_side_effects(b)
        save = list(state.pc)
        state.pc = save + [vc]
        va = self.rvalue(state, a)
        state.pc = save + [z3.Not(vc)]
        vb = self.rvalue(state, b)
        state.pc = save
        kc = z3.simplify(vc)
        if z3.is_true(kc):
            return va
        if z3.is_false(kc):
            return vb
        if isinstance(va, Ptr) or isinstance(vb, Ptr):
            raise Unsupported("conditional pointer")
        rt = ntype(node)
        if rt[0] == "real":
            return Sc(z3.If(vc, smt.real(va.t), smt.real(vb.t)), rt)
        return Sc(z3.If(vc, self.as_int(va), self.as_int(vb)), rt)

    def ev_StmtExpr(self, state, node):
        # glibc assert(): ({ if (e) ; else __assert_fail(...); })
        ex = self.exec_stmt(state, kids(node)[0])
        self._adopt(state, ex.get("fall"))
        return None

    def _adopt(self, state, new):
        if new is None:
            state.pc.append(z3.BoolVal(False))
            return
        state.vars, state.mem, state.pc = new.vars, new.mem, new.pc

    def callee_name(self, node):
        f = kids(node)[0]
        while f.get("kind") in ("ImplicitCastExpr", "ParenExpr"):
            f = kids(f)[0]
        if f.get("kind") == "DeclRefExpr":
            return f["referencedDecl"]["name"]
        raise Unsupported("indirect call")

    def ev_CallExpr(self, state, node):
        from . import csym_calls
        return csym_calls.call(self, state, node)

    def ev_InitListExpr(self, state, node):
        raise Unsupported("initializer list in expression")


    def omp_query(self, state, name):
        if name == "omp_get_thread_num" and self.omp_tid is not None:
            return Sc(self.omp_tid[0], INT)
        if name == "omp_get_num_threads" and self.omp_tid is not None:
            return Sc(self.omp_tid[1], INT)
        v = smt.fresh(name, smt.I)
        if name == "omp_get_thread_num":
            self.facts.append(z3.And(v >= 0, v <= 2147483646))
        else:
            self.facts.append(z3.And(v >= 1, v <= 2147483647))
        return Sc(v, INT)


from . import csym_stmt  # noqa: E402
csym_stmt.install(FnExec)
