"""`#pragma omp parallel { ... }` regions that are not a single work-shared loop.

Accepted shape (everything else is Unsupported, i.e. the function stays outside the claim):
    #pragma omp parallel private(...)
    {   statements writing only private scalars / variables declared inside the region
        #pragma omp for [simd]            work-shared loops (data-race freedom checked by check_drf, region privates are thread local)
        #pragma omp critical { ... }      the only place where shared scalars may be written or (if written anywhere) read
    }
The region must not call omp_get_thread_num / omp_get_num_threads (a hand-made work split is a different proof).

Semantics used: the statements are executed once for a *generic thread*.  Shared scalars written in critical sections
are given arbitrary values (definedness kept) before and after every critical section, because other threads may have
executed theirs in between; a work-shared loop is verified with loop invariants over all iterations, and afterwards every
scalar its body writes gets an arbitrary value (a thread executes an arbitrary subset of the iterations).  That last step is
only sound for questions that do not depend on the value (memory safety, definedness), so body-written scalars that survive
the loop must be floating point (no overflow obligations can depend on them); otherwise Unsupported.
"""
import z3
from . import smt
from .csym import Unsupported, Sc
from .csym_exec import kids

FOR_KINDS = ("OMPForDirective", "OMPForSimdDirective")


def _refs(node, out):
    if node.get("kind") == "DeclRefExpr":
        out.add(node["referencedDecl"]["name"])
    for c in kids(node):
        _refs(c, out)


def _has_kind(node, pred):
    if pred(node):
        return True
    return any(_has_kind(c, pred) for c in kids(node))


def _havoc_scalars(ex, st, names):
    for v in sorted(names):
        if v not in st.vars:
            continue
        val, d = st.vars[v]
        if isinstance(val, Sc):
            t = ex.var_types[v]
            nv = ex.fresh_like(v + "@par", t)
            if t[0] == "int":
                from . import ctypes_ as ct
                lo, hi = ct.int_range(t)
                ex.facts.append(z3.And(nv >= lo, nv <= hi))
            st.vars[v] = (Sc(nv, t), d)


def exec_parallel(ex, state, node, inner, info):
    if inner.get("kind") != "CompoundStmt":
        raise Unsupported("omp parallel region that is not a block")
    if ex.in_parallel:
        raise Unsupported("nested parallel region")
    stmts = kids(inner)

    def cls(s):
        k = s.get("kind", "")
        if k in FOR_KINDS:
            return "for"
        if k == "OMPCriticalDirective":
            return "crit"
        if k.startswith("OMP"):
            raise Unsupported("OpenMP directive %s inside a parallel region" % k)
        return "other"
    kinds = [cls(s) for s in stmts]
    for s, c in zip(stmts, kinds):
        if c == "other" and _has_kind(s, lambda n: n.get("kind", "").startswith("OMP") and n.get("kind", "").endswith("Directive")):
            raise Unsupported("nested OpenMP directive inside a statement of a parallel region")
    if _has_kind(inner, lambda n: n.get("kind") == "CallExpr" and ex.callee_name(n) in ("omp_get_thread_num", "omp_get_num_threads")):
        raise Unsupported("parallel region with a hand-made work split (omp_get_thread_num)")
    priv = set(info["private"]) | set(info["firstprivate"])
    wv = {"other": set(), "crit": set(), "for": set()}
    wm = {"other": set(), "crit": set(), "for": set()}
    decls = set()
    for s, c in zip(stmts, kinds):
        ex.scan_writes(s, wv[c], wm[c], {}, decls)
    head = state
    for v in sorted(wv["other"] - decls - priv):
        ex.oblige(head, "omp-shared-scalar-written", node, z3.BoolVal(False), label="region:%s" % v)
    for m in sorted((wm["other"] | wm["crit"]) - decls):
        ex.oblige(head, "omp-shared-memory-written", node, z3.BoolVal(False), label="region:%s" % m)
    shared_crit = wv["crit"] - decls - priv
    outside = set()
    for s, c in zip(stmts, kinds):
        if c != "crit":
            _refs(s, outside)
    for v in sorted(shared_crit & outside):
        ex.oblige(head, "omp-shared-read-outside-critical", node, z3.BoolVal(False), label="region:%s" % v)
    pre = state.copy()
    cur = state
    for v in sorted(info["private"]):
        if v in cur.vars and isinstance(cur.vars[v][0], Sc):
            t = ex.var_types[v]
            cur.vars[v] = (Sc(ex.fresh_like(v + "@p", t), t), z3.BoolVal(False))
    ex.in_parallel = True
    ex.region_private = priv | decls
    try:
        for s, c in zip(stmts, kinds):
            if c == "crit":
                _havoc_scalars(ex, cur, shared_crit)
            r = ex.exec_stmt(cur, s)
            nxt = r.pop("fall", None)
            if r:
                raise Unsupported("jump out of a parallel region")
            if nxt is None:
                raise Unsupported("parallel region does not fall through")
            cur = nxt
            if c == "for":
                surv = wv["for"] - {x for x in wv["for"] if x not in cur.vars}
                body_w = set()
                ex.scan_writes(s, body_w, set(), {}, set())
                for v in sorted(body_w):
                    if v in cur.vars and isinstance(cur.vars[v][0], Sc) and v in (priv | decls):
                        if ex.var_types[v][0] == "int" and v in _loopvars(ex, s):
                            continue
                        if ex.var_types[v][0] == "int":
                            raise Unsupported("integer scalar %s carried out of a work-shared loop in a parallel region" % v)
                _havoc_scalars(ex, cur, {v for v in body_w if v in (priv | decls) and v not in _loopvars(ex, s)})
            if c == "crit":
                _havoc_scalars(ex, cur, shared_crit)
    finally:
        ex.in_parallel = False
        ex.region_private = set()
    for v in sorted(info["private"]):
        if v in pre.vars and v in cur.vars:
            cur.vars[v] = pre.vars[v]
    ex.assumptions_used.add("omp-drf-meta")
    return {"fall": cur}


def _loopvars(ex, directive):
    out = set()
    inner = ex.omp_stmt(directive)
    if inner.get("kind") == "ForStmt":
        init = kids(inner)[0] if kids(inner) else None
        if init is not None:
            w = set()
            ex.scan_writes(init, w, set(), {}, set())
            out |= w
    return out
