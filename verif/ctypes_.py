"""C type strings (clang qualType) -> small tuples.

('int', bits, signed) | ('real', 'float'|'double') | ('ptr', T) | ('arr', T, n) | ('void',) | ('bool',)
"""
import re

INTS = {
    "char": (8, True), "signed char": (8, True), "unsigned char": (8, False),
    "short": (16, True), "unsigned short": (16, False),
    "int": (32, True), "unsigned int": (32, False), "unsigned": (32, False),
    "long": (64, True), "unsigned long": (64, False),
    "long long": (64, True), "unsigned long long": (64, False),
    "int8_t": (8, True), "uint8_t": (8, False), "int16_t": (16, True), "uint16_t": (16, False),
    "int32_t": (32, True), "uint32_t": (32, False), "int64_t": (64, True), "uint64_t": (64, False),
    "size_t": (64, False), "ssize_t": (64, True), "ptrdiff_t": (64, True),
    "__int32_t": (32, True), "__uint32_t": (32, False), "__int64_t": (64, True),
    "__uint8_t": (8, False), "__uint16_t": (16, False), "__int8_t": (8, True), "__int16_t": (16, True),
    "__uint64_t": (64, False), "_Bool": (8, False),
}
TYPEDEFS = {"vec": "double[3]"}


def parse(s):
    s = s.strip()
    s = re.sub(r"\b(const|volatile|restrict|__restrict|register)\b", " ", s)
    s = re.sub(r"\s+", " ", s).strip()
    return _parse(s)


def _parse(s):
    s = s.strip()
    # pointer to array:  T (*)[3]
    m = re.match(r"^(.*?)\(\s*\*\s*\)\s*((?:\[\d*\])+)$", s)
    if m:
        return ("ptr", _parse(m.group(1).strip() + m.group(2)))
    # array suffixes: T[3][3]  (first dim is outermost)
    m = re.match(r"^(.*?)\s*\[(\d*)\]((?:\[\d*\])*)$", s)
    if m:
        base, n, rest = m.group(1), m.group(2), m.group(3)
        inner = _parse(base + rest)
        if n == "":
            return ("ptr", inner)
        return ("arr", inner, int(n))
    if s.endswith("*"):
        return ("ptr", _parse(s[:-1]))
    if s in TYPEDEFS:
        return _parse(TYPEDEFS[s])
    if s in INTS:
        b, sg = INTS[s]
        return ("int", b, sg)
    if s == "float":
        return ("real", "float")
    if s in ("double", "long double"):
        return ("real", "double")
    if s == "void":
        return ("void",)
    if s.startswith("enum"):
        return ("int", 32, True)
    raise ValueError("unsupported C type: %r" % s)


def nscalars(t):
    if t[0] == "arr":
        return t[2] * nscalars(t[1])
    return 1


def base_scalar(t):
    while t[0] == "arr":
        t = t[1]
    return t


def sizeof(t):
    if t[0] == "int":
        return t[1] // 8
    if t[0] == "real":
        return 4 if t[1] == "float" else 8
    if t[0] == "ptr":
        return 8
    if t[0] == "arr":
        return t[2] * sizeof(t[1])
    raise ValueError(t)


def int_range(t):
    assert t[0] == "int"
    b, sg = t[1], t[2]
    if sg:
        return -(1 << (b - 1)), (1 << (b - 1)) - 1
    return 0, (1 << b) - 1
