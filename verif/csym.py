"""csym: symbolic execution of real C functions (clang JSON AST) against sidecar contracts.

One FnExec verifies one function: it walks the AST of the function as compiled,
keeps a guarded symbolic state (variables, regions, path condition), merges
states at joins, cuts loops at invariants (constant-trip loops are unrolled
completely) and emits one named obligation for every array access, arithmetic
operation, conversion, call precondition, invariant and postcondition.
Callees are *never* inlined: only their contract is used.

Semantics assumed (repeated in every evidence file): float/double are
mathematical reals, C integers are mathematical integers with an obligation
that each signed result is representable, distinct pointer parameters address
distinct buffers, libm functions are the real functions.
"""
import z3
from . import smt, ctypes_ as ct, contract as K
from .cfront import norm_text

MAGIC = 6755399441055744.0
MAX_UNROLL = 6000


class Unsupported(Exception):
    pass


class Region:
    _n = 0

    def __init__(self, name, ctype, kind):
        Region._n += 1
        self.id = Region._n
        self.name = name
        self.ctype = ctype          # element C type tuple or None (untyped heap)
        self.kind = kind
        self.nbytes = None

    @property
    def elem(self):
        if self.ctype is None:
            return None
        return {"int": "int", "real": "real", "ptr": "ptr"}[self.ctype[0]]

    def __repr__(self):
        return "<R%d %s>" % (self.id, self.name)


class Mem:
    __slots__ = ("vals", "defd", "alive", "length", "cells")

    def __init__(self, vals, defd, alive, length, cells=None):
        self.vals, self.defd, self.alive, self.length, self.cells = vals, defd, alive, length, cells

    def copy(self):
        return Mem(self.vals, self.defd, self.alive, self.length, dict(self.cells) if self.cells is not None else None)


class Ptr:
    def __init__(self, region, off, pointee):
        self.region = region      # None => NULL
        self.off = off
        self.pointee = pointee

    def __repr__(self):
        return "Ptr(%s+%s)" % (self.region, self.off)


class Sc:
    __slots__ = ("t", "ct")

    def __init__(self, t, ctype):
        self.t, self.ct = t, ctype


class LV:
    def __init__(self, kind, name=None, ptr=None, ctype=None):
        self.kind, self.name, self.ptr, self.ctype = kind, name, ptr, ctype


class State:
    def __init__(self):
        self.vars = {}      # name -> (value, defined Bool)
        self.mem = {}       # region id -> Mem
        self.pc = []        # list of conjuncts
        self.retval = None

    def copy(self):
        s = State()
        s.vars = dict(self.vars)
        s.mem = {k: m.copy() for k, m in self.mem.items()}
        s.pc = list(self.pc)
        s.retval = self.retval
        return s

    def pcterm(self):
        return smt.conj(self.pc)


class Ob:
    def __init__(self, name, kind, fn, nfacts, pc, goal, text, line, prop=None):
        self.name, self.kind, self.fn, self.nfacts, self.pc, self.goal = name, kind, fn, nfacts, pc, goal
        self.text, self.line = text, line
        self.prop = prop
        self.extra_hyps = []


def arr_sort(elem):
    return z3.ArraySort(smt.I, smt.R if elem == "real" else smt.I)


def T():
    return z3.BoolVal(True)


class ArrView:
    """contract-side view of memory behind a pointer in a given state"""

    def __init__(self, ex, state, ptr):
        self.ex, self.state, self.ptr = ex, state, ptr

    def _mem(self):
        return self.state.mem[self.ptr.region.id]

    def __getitem__(self, i):
        p = self.ptr
        t = p.pointee
        if isinstance(i, tuple):
            v = self
            for k in i:
                v = v[k]
            return v
        i = smt.integer(i)
        off = z3.simplify(p.off + i * ct.nscalars(t))
        if t[0] == "arr":
            return ArrView(self.ex, self.state, Ptr(p.region, off, t[1]))
        m = self._mem()
        if p.region.elem == "ptr":
            c = m.cells.get(self.ex.const_int(off))
            if c is None:
                raise K.ContractError("pointer cell not available")
            return ArrView(self.ex, self.state, c)
        return z3.Select(m.vals, off)

    def defined(self, i):
        """element i (all of its scalars, when the element is itself an array) holds defined values"""
        n = ct.nscalars(self.ptr.pointee)
        base = z3.simplify(self.ptr.off + smt.integer(i) * n)
        d = self._mem().defd
        return smt.conj([z3.Select(d, z3.simplify(base + t)) for t in range(n)])

    @property
    def length(self):
        return self._mem().length - self.ptr.off

    @property
    def alive(self):
        return self._mem().alive

    @property
    def off(self):
        return self.ptr.off

    def same_region(self, other):
        return self.ptr.region is other.ptr.region


class OldNS:
    def __init__(self, d):
        self.__dict__.update(d)

