"""solve: discharge obligations with z3 5.1 (python API, in forked children that inherit the terms),
falling back to /usr/bin/z3 4.8 and cvc5 on `unknown`.

One query per obligation, at most NPROC children at a time, deterministic rlimit budget plus a hard
wall-clock kill.  Nothing is cached between runs.

Every obligation is first tried in weakened forms, each of which is *implied by* the exact query (so an
`unsat` answer for any of them is a proof of the exact obligation; `sat`/`unknown` means nothing and the
next form is tried):
  1. only the quantifier-free hypotheses,
  2. non-linear products and quotients replaced by uninterpreted functions mul$u / div$u (real
     multiplication is one interpretation of mul$u) with ground commutativity instances,
  3. the exact query.
"""
import json
import os
import select
import subprocess
import sys
import tempfile
import time
import z3

RLIMIT = int(os.environ.get("VERIF_RLIMIT", "80000000"))
WALL_MS = int(os.environ.get("VERIF_WALL_MS", "60000"))
NPROC = int(os.environ.get("VERIF_NPROC", "16"))
TMPDIR = os.path.join(os.path.dirname(os.path.dirname(os.path.abspath(__file__))), "build", "smt")

_mulU = z3.Function("mul$u", z3.RealSort(), z3.RealSort(), z3.RealSort())
_mulI = z3.Function("mul$i", z3.IntSort(), z3.IntSort(), z3.IntSort())
_divU = z3.Function("div$u", z3.RealSort(), z3.RealSort(), z3.RealSort())
_abs_cache = {}
_q_cache = {}
_var_cache = {}
_mul_cache = {}
_keep = []          # keeps every cached term alive so that ast ids stay unique


def _isnum(a):
    return z3.is_rational_value(a) or z3.is_int_value(a)


def _monomial(t):
    """t = coef * prod(f^(+-1)): returns (Fraction coef, [(factor term, inverted?)]) through nested products,
    quotients and negations.  x/y is read as x*inv(y) (z3's x/0 is thereby tied to x*inv(0): division by zero is
    outside the model, see the assumption list)."""
    from fractions import Fraction
    coef, factors, stack = Fraction(1), [], [(t, False)]
    while stack:
        x, inv = stack.pop()
        k = x.decl().kind() if z3.is_app(x) else None
        if k == z3.Z3_OP_MUL:
            stack.extend((c, inv) for c in x.children())
        elif k == z3.Z3_OP_DIV and x.sort() == z3.RealSort():
            stack.append((x.arg(0), inv))
            stack.append((x.arg(1), not inv))
        elif z3.is_rational_value(x) or z3.is_int_value(x):
            v = Fraction(x.numerator_as_long(), x.denominator_as_long()) if z3.is_rational_value(x) else Fraction(x.as_long())
            if inv:
                if v == 0:
                    factors.append((x, True))
                else:
                    coef /= v
            else:
                coef *= v
        elif k == z3.Z3_OP_TO_REAL and z3.is_int_value(x.arg(0)) and not (inv and x.arg(0).as_long() == 0):
            v = Fraction(x.arg(0).as_long())
            coef = coef / v if inv else coef * v
        elif k == z3.Z3_OP_UMINUS:
            coef = -coef
            stack.append((x.arg(0), inv))
        else:
            factors.append((x, inv))
    return coef, factors


_invU = z3.Function("inv$u", z3.RealSort(), z3.RealSort())


def _build_monomial(t, coef, factors, args, ch):
    if len(factors) >= 2 or any(inv for f, inv in factors):
        rest = []
        for f, inv in factors:
            a = abstract_nl(f)
            rest.append(_invU(a) if inv else a)
        rest.sort(key=lambda a: a.sexpr())
        f = _mulU if t.sort() == z3.RealSort() else _mulI
        acc = rest[0]
        for a in rest[1:]:
            acc = f(acc, a)
        if coef == 1:
            return acc
        return (z3.RealVal(str(coef)) if t.sort() == z3.RealSort() else z3.IntVal(int(coef))) * acc
    if all(a.eq(b) for a, b in zip(args, ch)):
        return t
    return t.decl()(*args)


def abstract_nl(t):
    k = t.get_id()
    if k in _abs_cache:
        return _abs_cache[k]
    if z3.is_quantifier(t):
        body = abstract_nl(t.body())
        if body.eq(t.body()):
            r = t
        else:
            n = t.num_vars()
            vs = [z3.Const("%s" % t.var_name(i), t.var_sort(i)) for i in range(n)]
            inst = z3.substitute_vars(body, *reversed(vs))
            if t.is_lambda():
                r = z3.Lambda(vs, inst)
            else:
                r = (z3.ForAll if t.is_forall() else z3.Exists)(vs, inst)
    elif z3.is_app(t):
        ch = t.children()
        args = [abstract_nl(a) for a in ch]
        kind = t.decl().kind()
        if kind == z3.Z3_OP_MUL and t.sort() == z3.IntSort() and not getattr(abstract_nl, "_in_som", False):
            # integer index arithmetic: expand products of sums into a sum of monomials first ((i+1)*nf -> i*nf + nf)
            t2 = z3.simplify(t, som=True)
            if not t2.eq(t):
                abstract_nl._in_som = True
                try:
                    r = abstract_nl(t2)
                finally:
                    abstract_nl._in_som = False
                _abs_cache[k] = r
                _keep.append(t)
                return r
        if kind == z3.Z3_OP_MUL:
            # canonical monomial: numeric coefficient times the sorted list of non-numeric factors, collected
            # through nested products and divisions by numerals
            coef, factors = _monomial(t)
            r = _build_monomial(t, coef, factors, args, ch)
        elif kind == z3.Z3_OP_DIV and t.sort() == z3.RealSort() and not _isnum(ch[1]):
            coef, factors = _monomial(t)
            r = _build_monomial(t, coef, factors, args, ch)
        elif all(a.eq(b) for a, b in zip(args, ch)):
            r = t
        else:
            r = t.decl()(*args)
    else:
        r = t
    _abs_cache[k] = r
    _keep.append(t)
    return r


_strip_cache = {}


def strip_blk(t):
    """remove the naming wrapper val$(x) -> x (its defining instance is val$(x) == x) for the exact stages"""
    k = t.get_id()
    if k in _strip_cache:
        return _strip_cache[k]
    if z3.is_quantifier(t):
        body = strip_blk(t.body())
        if body.eq(t.body()):
            r = t
        else:
            n = t.num_vars()
            vs = [z3.Const("%s" % t.var_name(i), t.var_sort(i)) for i in range(n)]
            inst = z3.substitute_vars(body, *reversed(vs))
            r = z3.Lambda(vs, inst) if t.is_lambda() else (z3.ForAll if t.is_forall() else z3.Exists)(vs, inst)
    elif z3.is_app(t):
        ch = t.children()
        args = [strip_blk(a) for a in ch]
        if t.decl().name() == "val$" and len(args) == 1:
            r = args[0]
        elif all(a.eq(b) for a, b in zip(args, ch)):
            r = t
        else:
            r = t.decl()(*args)
    else:
        r = t
    _strip_cache[k] = r
    _keep.append(t)
    return r


def _has_quant(root):
    # iterative (goals from unrolled loops nest thousands deep)
    stack = [(root, False)]
    while stack:
        t, done = stack.pop()
        k = t.get_id()
        if k in _q_cache:
            continue
        if z3.is_quantifier(t):
            _q_cache[k] = True
            _keep.append(t)
            continue
        ch = t.children()
        if not done:
            stack.append((t, True))
            for c in ch:
                if c.get_id() not in _q_cache:
                    stack.append((c, False))
            continue
        _q_cache[k] = any(_q_cache[c.get_id()] for c in ch)
        _keep.append(t)
    return _q_cache[root.get_id()]


def _has_var(t):
    k = t.get_id()
    if k in _var_cache:
        return _var_cache[k]
    r = z3.is_var(t) or any(_has_var(c) for c in t.children())
    _var_cache[k] = r
    _keep.append(t)
    return r


def _muls_of(t):
    """closed mul$ applications occurring in an (already abstracted) term; cached per term"""
    k = t.get_id()
    if k in _mul_cache:
        return _mul_cache[k]
    found, seen, stack = {}, set(), [t]
    while stack:
        x = stack.pop()
        xi = x.get_id()
        if xi in seen:
            continue
        seen.add(xi)
        if z3.is_quantifier(x):
            stack.append(x.body())
            continue
        if z3.is_app(x):
            if x.num_args() == 2 and x.decl().name() in ("mul$u", "mul$i") and not _has_var(x):
                found[xi] = (x.decl(), x.arg(0), x.arg(1))
            stack.extend(x.children())
    r = [found[i] for i in sorted(found)]
    _mul_cache[k] = r
    _keep.append(t)
    return r


def _comm_hyps(terms):
    """ground AC instances for the abstracted products occurring in the query: commutativity of every product,
    squares non-negative, and the two other associations of every three-factor product"""
    out, seen = [], set()

    def comm(f, a, b):
        k = (a.get_id(), b.get_id())
        if k in seen or (b.get_id(), a.get_id()) in seen:
            return
        seen.add(k)
        if a.eq(b):
            out.append(f(a, a) >= 0)
        else:
            out.append(f(a, b) == f(b, a))

    ints = []
    for t in terms:
        for f, a, b in _muls_of(t):
            if f.eq(_mulI):
                ints.append((a, b))
    # monotonicity of integer products sharing a factor: (x <= y and c >= 0) => x*c <= y*c   (index arithmetic)
    uniq = {}
    for a, b in ints:
        uniq[(a.get_id(), b.get_id())] = (a, b)
    plist = list(uniq.values())[:40]
    for i, (a1, b1) in enumerate(plist):
        out.append(z3.Implies(z3.And(a1 >= 0, b1 >= 0), _mulI(a1, b1) >= 0))
        for (a2, b2) in plist[i + 1:]:
            for (x, c1), (y, c2) in (((a1, b1), (a2, b2)), ((a1, b1), (b2, a2)), ((b1, a1), (a2, b2)), ((b1, a1), (b2, a2))):
                if c1.eq(c2):
                    p1, p2 = _mulI(a1, b1), _mulI(a2, b2)
                    out.append(z3.Implies(z3.And(c1 >= 0, x <= y), p1 <= p2))
                    out.append(z3.Implies(z3.And(c1 >= 0, y <= x), p2 <= p1))
    for t in terms:
        for f, a, b in _muls_of(t):
            comm(f, a, b)
            for x, y in ((a, b), (b, a)):
                if z3.is_app(x) and x.num_args() == 2 and x.decl().eq(f):
                    p, q = x.arg(0), x.arg(1)
                    # (p*q)*y == (p*y)*q == (q*y)*p
                    out.append(f(f(p, q), y) == f(f(p, y), q))
                    out.append(f(f(p, q), y) == f(f(q, y), p))
                    comm(f, p, y)
                    comm(f, q, y)
                    comm(f, f(p, y), q)
                    comm(f, f(q, y), p)
                    comm(f, f(p, q), y)
    return out


def to_smt2(hyps, goal):
    s = z3.Solver()
    for h in hyps:
        s.add(h)
    s.add(z3.Not(goal))
    return s.to_smt2()


def _run(cmd, timeout):
    try:
        p = subprocess.run(cmd, capture_output=True, text=True, timeout=timeout)
    except subprocess.TimeoutExpired:
        return "unknown", "hard-timeout"
    out = p.stdout.strip().splitlines()
    first = out[0].strip() if out else ""
    if first in ("sat", "unsat", "unknown"):
        return first, ""
    return "unknown", (p.stdout + p.stderr)[-300:]


class Prepared:
    __slots__ = ("hyps", "goal", "ahyps", "agoal", "nl", "qf_idx")


def prepare(o, facts=None):
    f = o.facts if getattr(o, "facts", None) is not None else facts
    p = Prepared()
    raw = list(f[:o.nfacts]) + [o.pc] + list(o.extra_hyps)
    p.ahyps = [abstract_nl(h) for h in raw]
    p.agoal = abstract_nl(o.goal)
    p.hyps = [strip_blk(h) for h in raw]
    p.goal = strip_blk(o.goal)
    p.nl = any(not a.eq(h) for a, h in zip(p.ahyps, raw)) or not p.agoal.eq(o.goal)
    p.qf_idx = [i for i, h in enumerate(p.hyps) if not _has_quant(h)]
    return p


SEED = 0      # the retry of open obligations re-runs the stages with other solver seeds (an unsat answer is a proof under any seed)


def _check(hyps, goal, rlimit, wall_ms):
    s = z3.Solver()
    s.set("rlimit", rlimit)
    s.set("timeout", int(wall_ms))
    if SEED:
        s.set("random_seed", SEED)
    for h in hyps:
        s.add(h)
    s.add(z3.Not(goal))
    r = s.check()
    return str(r), (s.reason_unknown() if r == z3.unknown else "")


def elim_div(terms):
    """name every real quotient by a reciprocal: a/d becomes a*r_d with a fresh constant r_d and the hypothesis d != 0 -> d*r_d == 1
    (r_d is just a name for 1/d, so the rewritten problem is equisatisfiable; it is polynomial, which the solver handles far better).
    returns (rewritten terms, extra hypotheses); only used when the formulas are quantifier free"""
    cache, recips = {}, {}

    def walk(root):
        # iterative post-order (terms from unrolled loops nest thousands deep)
        stack = [(root, False)]
        while stack:
            t, done = stack.pop()
            k = t.get_id()
            if k in cache:
                continue
            if z3.is_quantifier(t) or not z3.is_app(t) or t.num_args() == 0:
                cache[k] = t
                continue
            ch = t.children()
            if not done:
                stack.append((t, True))
                for c in ch:
                    if c.get_id() not in cache:
                        stack.append((c, False))
                continue
            args = [cache[c.get_id()] for c in ch]
            if t.decl().kind() == z3.Z3_OP_DIV and t.sort() == z3.RealSort() and not (z3.is_rational_value(args[1]) or z3.is_int_value(args[1])):
                d = args[1]
                if d.get_id() not in recips:
                    recips[d.get_id()] = (d, z3.Real("recip!%d" % len(recips)))
                r = args[0] * recips[d.get_id()][1]
            elif all(a.eq(b) for a, b in zip(args, ch)):
                r = t
            else:
                r = t.decl()(*args)
            cache[k] = r
        return cache[root.get_id()]
    out = [walk(t) for t in terms]
    extra = [z3.Implies(d != 0, d * r == 1) for d, r in recips.values()]
    return out, extra


def _solve_prepared(p, rlimit, wall_ms, fallbacks):
    t0 = time.time()
    short = min(wall_ms, max(15000, wall_ms // 4))
    stages = []
    if len(p.qf_idx) < len(p.hyps):
        if p.nl:
            hy = [p.ahyps[i] for i in p.qf_idx]
            stages.append(("qf+nl-abstraction", hy + _comm_hyps(hy + [p.agoal]), p.agoal, short))
        else:
            stages.append(("qf-hyps", [p.hyps[i] for i in p.qf_idx], p.goal, short))
    if p.nl:
        stages.append(("nl-abstraction", p.ahyps + _comm_hyps(p.ahyps + [p.agoal]), p.agoal, short))
    if p.nl and len(p.qf_idx) < len(p.hyps):
        stages.append(("qf-hyps", [p.hyps[i] for i in p.qf_idx], p.goal, short))
    if len(p.qf_idx) == len(p.hyps) and not _has_quant(p.goal):
        rew, extra = elim_div(list(p.hyps) + [p.goal])
        if extra:
            stages.append(("reciprocals-named", rew[:-1] + extra, rew[-1], short))
    stages.append(("exact", p.hyps, p.goal, wall_ms))
    res, reason, backend = "unknown", "", "z3-5.1"
    for tag, hy, goal, ms in stages:
        res, reason = _check(hy, goal, rlimit, ms)
        if res == "unsat":
            return res, backend + ("+" + tag if tag != "exact" else ""), time.time() - t0, ""
    if res == "unknown" and fallbacks:
        text = to_smt2(p.hyps, p.goal)
        os.makedirs(TMPDIR, exist_ok=True)
        with tempfile.NamedTemporaryFile("w", suffix=".smt2", delete=False, dir=TMPDIR) as f:
            f.write(text)
            path = f.name
        try:
            secs = max(2, wall_ms // 2000)
            for be, cmd in (("z3-4.8", ["/usr/bin/z3", "-smt2", "-T:%d" % secs, path]),
                            ("cvc5", ["/usr/bin/cvc5", "--tlimit=%d" % (secs * 1000), path])):
                r2, _ = _run(cmd, secs + 10)
                if r2 == "unsat":   # only a fallback `unsat` is used; a counter-model must come from the primary solver
                    return "unsat", be, time.time() - t0, ""
        finally:
            try:
                os.unlink(path)
            except OSError:
                pass
    return res, backend, time.time() - t0, reason


def pool_map(fn, n_items, hard_s):
    """run fn(i) for i in range(n_items) in forked children (at most NPROC at a time, hard wall-clock kill);
    returns list of results (json-serialisable) or None for a killed / crashed child"""
    out = [None] * n_items
    pending = list(range(n_items))[::-1]
    running = {}
    sys.stdout.flush()
    sys.stderr.flush()
    while pending or running:
        while pending and len(running) < NPROC:
            i = pending.pop()
            r, w = os.pipe()
            pid = os.fork()
            if pid == 0:
                try:
                    os.close(r)
                    try:
                        res = fn(i)
                    except Exception as e:  # pragma: no cover
                        res = {"__error__": "exception: %s" % e}
                    os.write(w, json.dumps(res).encode())
                    os.close(w)
                finally:
                    os._exit(0)
            os.close(w)
            running[r] = [i, pid, time.time(), b""]
        ready, _, _ = select.select(list(running), [], [], 0.5)
        now = time.time()
        for fd in ready:
            data = os.read(fd, 65536)
            ent = running[fd]
            if data:
                ent[3] += data
                continue
            os.close(fd)
            os.waitpid(ent[1], 0)
            del running[fd]
            try:
                out[ent[0]] = json.loads(ent[3].decode())
            except Exception:
                out[ent[0]] = None
        for fd, ent in list(running.items()):
            if now - ent[2] > hard_s:
                try:
                    os.kill(ent[1], 9)
                except OSError:
                    pass
                os.close(fd)
                os.waitpid(ent[1], 0)
                del running[fd]
                out[ent[0]] = None
    return out


def solve_all(obs, facts=None, fallbacks=True, rlimit=None, wall_ms=None, seed=0):
    """obs: list of obligations (hyps = facts[:nfacts] + pc + extra_hyps).  returns list of dicts in order."""
    global SEED
    SEED = seed            # read by the forked children
    rlimit = rlimit or RLIMIT
    wall_ms = wall_ms or WALL_MS
    prepared = {}
    idx = []
    for i, o in enumerate(obs):
        if not getattr(o, "trivial", False):
            prepared[i] = prepare(o, facts)
            idx.append(i)
    hard = (wall_ms * 2.2 + 45000) / 1000.0
    t0 = time.time()
    raw = pool_map(lambda k: list(_solve_prepared(prepared[idx[k]], rlimit, wall_ms, fallbacks)), len(idx), hard)
    out = [("unsat", "z3-simplify", 0.0, "")] * len(obs)
    for k, i in enumerate(idx):
        r = raw[k]
        if r is None or isinstance(r, dict):
            out[i] = ("unknown", "z3-5.1", hard, "hard-timeout or child died" if r is None else r.get("__error__", ""))
        else:
            out[i] = tuple(r)
    res = []
    for o, (r, be, dt, reason) in zip(obs, out):
        res.append(dict(name=o.name, kind=o.kind, fn=o.fn, result=r, backend=be, seconds=round(dt, 4),
                        reason=reason, prop=o.prop, line=o.line))
    return res


def model_for(o, facts=None, wall_ms=60000):
    """re-solve in process to get a model object for replay"""
    p = prepare(o, facts)
    s = z3.Solver()
    s.set("timeout", wall_ms)
    for h in p.hyps:
        s.add(h)
    s.add(z3.Not(p.goal))
    if s.check() == z3.sat:
        return s.model()
    return None


def vacuity(obs, facts=None, wall_ms=20000):
    """for each given obligation: are its hypotheses contradictory?  returns list of 'sat' | 'unknown' | 'unsat'
    ('unsat' = the obligation would be discharged vacuously: reported as a checker error)"""
    preps = [prepare(o, facts) for o in obs]

    def one(k):
        p = preps[k]
        r, _ = _check(p.ahyps + _comm_hyps(p.ahyps), z3.BoolVal(False), RLIMIT, wall_ms)
        if r != "unsat":
            # the abstraction is weaker than the real hypotheses: also try the exact ones briefly
            r2, _ = _check(p.hyps, z3.BoolVal(False), RLIMIT, min(wall_ms, 10000))
            if r2 == "unsat":
                r = "unsat"
        return r
    raw = pool_map(one, len(preps), wall_ms / 1000.0 * 2 + 30)
    return [r if isinstance(r, str) else "unknown" for r in raw]
