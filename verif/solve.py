"""solve: discharge obligations with z3 5.1 (python API, in forked children that inherit the terms),
falling back to /usr/bin/z3 4.8 and cvc5 on `unknown`.

One query per obligation, at most NPROC children at a time, deterministic rlimit budget plus a hard
wall-clock kill.  Nothing is cached between runs.

Every obligation is first tried in weakened forms, each of which is *implied by* the exact query (so an
`unsat` answer for any of them is a proof of the exact obligation; `sat`/`unknown` means nothing and the
next form is tried):
  1. only the quantifier-free hypotheses,
  2. non-linear products and quotients replaced by uninterpreted functions mul$u / div$u (real
     multiplication is one interpretation of mul$u) with ground commutativity instances,
  3. the exact query.
"""
import json
import os
import select
import subprocess
import sys
import tempfile
import time
import z3

RLIMIT = int(os.environ.get("VERIF_RLIMIT", "80000000"))
WALL_MS = int(os.environ.get("VERIF_WALL_MS", "60000"))
NPROC = int(os.environ.get("VERIF_NPROC", "16"))
TMPDIR = os.path.join(os.path.dirname(os.path.dirname(os.path.abspath(__file__))), "build", "smt")

_mulU = z3.Function("mul$u", z3.RealSort(), z3.RealSort(), z3.RealSort())
_mulI = z3.Function("mul$i", z3.IntSort(), z3.IntSort(), z3.IntSort())
_divU = z3.Function("div$u", z3.RealSort(), z3.RealSort(), z3.RealSort())
_abs_cache = {}
_q_cache = {}
_var_cache = {}
_mul_cache = {}
_keep = []          # keeps every cached term alive so that ast ids stay unique


def _isnum(a):
    return z3.is_rational_value(a) or z3.is_int_value(a)


def abstract_nl(t):
    k = t.get_id()
    if k in _abs_cache:
        return _abs_cache[k]
    if z3.is_quantifier(t):
        body = abstract_nl(t.body())
        if body.eq(t.body()):
            r = t
        else:
            n = t.num_vars()
            vs = [z3.Const("%s" % t.var_name(i), t.var_sort(i)) for i in range(n)]
            inst = z3.substitute_vars(body, *reversed(vs))
            if t.is_lambda():
                r = z3.Lambda(vs, inst)
            else:
                r = (z3.ForAll if t.is_forall() else z3.Exists)(vs, inst)
    elif z3.is_app(t):
        ch = t.children()
        args = [abstract_nl(a) for a in ch]
        kind = t.decl().kind()
        if kind == z3.Z3_OP_MUL:
            nums = [a for a in args if _isnum(a)]
            rest = [a for a in args if not _isnum(a)]
            if len(rest) >= 2:
                rest.sort(key=lambda a: a.sexpr())
                f = _mulU if t.sort() == z3.RealSort() else _mulI
                acc = rest[0]
                for a in rest[1:]:
                    acc = f(acc, a)
                r = acc
                for c in nums:
                    r = c * r
            elif all(a.eq(b) for a, b in zip(args, ch)):
                r = t
            else:
                r = t.decl()(*args)
        elif kind == z3.Z3_OP_DIV and not _isnum(args[1]):
            r = _divU(args[0], args[1])
        elif all(a.eq(b) for a, b in zip(args, ch)):
            r = t
        else:
            r = t.decl()(*args)
    else:
        r = t
    _abs_cache[k] = r
    _keep.append(t)
    return r


def _has_quant(t):
    k = t.get_id()
    if k in _q_cache:
        return _q_cache[k]
    r = z3.is_quantifier(t) or any(_has_quant(c) for c in t.children())
    _q_cache[k] = r
    _keep.append(t)
    return r


def _has_var(t):
    k = t.get_id()
    if k in _var_cache:
        return _var_cache[k]
    r = z3.is_var(t) or any(_has_var(c) for c in t.children())
    _var_cache[k] = r
    _keep.append(t)
    return r


def _muls_of(t):
    """closed mul$ applications occurring in an (already abstracted) term; cached per term"""
    k = t.get_id()
    if k in _mul_cache:
        return _mul_cache[k]
    found, seen, stack = {}, set(), [t]
    while stack:
        x = stack.pop()
        xi = x.get_id()
        if xi in seen:
            continue
        seen.add(xi)
        if z3.is_quantifier(x):
            stack.append(x.body())
            continue
        if z3.is_app(x):
            if x.num_args() == 2 and x.decl().name() in ("mul$u", "mul$i") and not _has_var(x):
                found[xi] = (x.decl(), x.arg(0), x.arg(1))
            stack.extend(x.children())
    r = [found[i] for i in sorted(found)]
    _mul_cache[k] = r
    _keep.append(t)
    return r


def _comm_hyps(terms):
    out, seen = [], set()
    for t in terms:
        for f, a, b in _muls_of(t):
            k = (a.get_id(), b.get_id())
            if k not in seen:
                seen.add(k)
                out.append(f(a, b) == f(b, a))
    return out


def to_smt2(hyps, goal):
    s = z3.Solver()
    for h in hyps:
        s.add(h)
    s.add(z3.Not(goal))
    return s.to_smt2()


def _run(cmd, timeout):
    try:
        p = subprocess.run(cmd, capture_output=True, text=True, timeout=timeout)
    except subprocess.TimeoutExpired:
        return "unknown", "hard-timeout"
    out = p.stdout.strip().splitlines()
    first = out[0].strip() if out else ""
    if first in ("sat", "unsat", "unknown"):
        return first, ""
    return "unknown", (p.stdout + p.stderr)[-300:]


class Prepared:
    __slots__ = ("hyps", "goal", "ahyps", "agoal", "nl", "qf_idx")


def prepare(o, facts=None):
    f = o.facts if getattr(o, "facts", None) is not None else facts
    p = Prepared()
    p.hyps = list(f[:o.nfacts]) + [o.pc] + list(o.extra_hyps)
    p.goal = o.goal
    p.ahyps = [abstract_nl(h) for h in p.hyps]
    p.agoal = abstract_nl(p.goal)
    p.nl = any(not a.eq(h) for a, h in zip(p.ahyps, p.hyps)) or not p.agoal.eq(p.goal)
    p.qf_idx = [i for i, h in enumerate(p.hyps) if not _has_quant(h)]
    return p


def _check(hyps, goal, rlimit, wall_ms):
    s = z3.Solver()
    s.set("rlimit", rlimit)
    s.set("timeout", int(wall_ms))
    for h in hyps:
        s.add(h)
    s.add(z3.Not(goal))
    r = s.check()
    return str(r), (s.reason_unknown() if r == z3.unknown else "")


def _solve_prepared(p, rlimit, wall_ms, fallbacks):
    t0 = time.time()
    short = min(wall_ms, 15000)
    stages = []
    if len(p.qf_idx) < len(p.hyps):
        if p.nl:
            hy = [p.ahyps[i] for i in p.qf_idx]
            stages.append(("qf+nl-abstraction", hy + _comm_hyps(hy + [p.agoal]), p.agoal, short))
        else:
            stages.append(("qf-hyps", [p.hyps[i] for i in p.qf_idx], p.goal, short))
    if p.nl:
        stages.append(("nl-abstraction", p.ahyps + _comm_hyps(p.ahyps + [p.agoal]), p.agoal, short))
    stages.append(("exact", p.hyps, p.goal, wall_ms))
    res, reason, backend = "unknown", "", "z3-5.1"
    for tag, hy, goal, ms in stages:
        res, reason = _check(hy, goal, rlimit, ms)
        if res == "unsat":
            return res, backend + ("+" + tag if tag != "exact" else ""), time.time() - t0, ""
    if res == "unknown" and fallbacks:
        text = to_smt2(p.hyps, p.goal)
        os.makedirs(TMPDIR, exist_ok=True)
        with tempfile.NamedTemporaryFile("w", suffix=".smt2", delete=False, dir=TMPDIR) as f:
            f.write(text)
            path = f.name
        try:
            secs = max(2, wall_ms // 2000)
            for be, cmd in (("z3-4.8", ["/usr/bin/z3", "-smt2", "-T:%d" % secs, path]),
                            ("cvc5", ["/usr/bin/cvc5", "--tlimit=%d" % (secs * 1000), path])):
                r2, _ = _run(cmd, secs + 10)
                if r2 == "unsat":   # only a fallback `unsat` is used; a counter-model must come from the primary solver
                    return "unsat", be, time.time() - t0, ""
        finally:
            try:
                os.unlink(path)
            except OSError:
                pass
    return res, backend, time.time() - t0, reason


def solve_all(obs, facts=None, fallbacks=True, rlimit=None, wall_ms=None):
    """obs: list of obligations (hyps = facts[:nfacts] + pc + extra_hyps).  returns list of dicts in order."""
    rlimit = rlimit or RLIMIT
    wall_ms = wall_ms or WALL_MS
    out = [None] * len(obs)
    prepared = {}
    pending = []
    for i, o in enumerate(obs):
        if getattr(o, "trivial", False):
            out[i] = ("unsat", "z3-simplify", 0.0, "")
        else:
            prepared[i] = prepare(o, facts)
            pending.append(i)
    hard = (wall_ms * 2.2 + 45000) / 1000.0
    running = {}     # read fd -> [idx, pid, start, buffer]
    pending.reverse()
    sys.stdout.flush()
    sys.stderr.flush()
    while pending or running:
        while pending and len(running) < NPROC:
            i = pending.pop()
            r, w = os.pipe()
            pid = os.fork()
            if pid == 0:
                try:
                    os.close(r)
                    try:
                        res = _solve_prepared(prepared[i], rlimit, wall_ms, fallbacks)
                    except Exception as e:  # pragma: no cover
                        res = ("unknown", "z3-5.1", 0.0, "exception: %s" % e)
                    os.write(w, json.dumps(res).encode())
                    os.close(w)
                finally:
                    os._exit(0)
            os.close(w)
            running[r] = [i, pid, time.time(), b""]
        ready, _, _ = select.select(list(running), [], [], 0.5)
        now = time.time()
        for fd in ready:
            data = os.read(fd, 65536)
            ent = running[fd]
            if data:
                ent[3] += data
                continue
            os.close(fd)
            os.waitpid(ent[1], 0)
            del running[fd]
            try:
                out[ent[0]] = tuple(json.loads(ent[3].decode()))
            except Exception:
                out[ent[0]] = ("unknown", "z3-5.1", now - ent[2], "child died")
        for fd, ent in list(running.items()):
            if now - ent[2] > hard:
                try:
                    os.kill(ent[1], 9)
                except OSError:
                    pass
                os.close(fd)
                os.waitpid(ent[1], 0)
                del running[fd]
                out[ent[0]] = ("unknown", "z3-5.1", now - ent[2], "hard-timeout")
    res = []
    for o, (r, be, dt, reason) in zip(obs, out):
        res.append(dict(name=o.name, kind=o.kind, fn=o.fn, result=r, backend=be, seconds=round(dt, 4),
                        reason=reason, prop=o.prop, line=o.line))
    return res


def model_for(o, facts=None, wall_ms=60000):
    """re-solve in process to get a model object for replay"""
    p = prepare(o, facts)
    s = z3.Solver()
    s.set("timeout", wall_ms)
    for h in p.hyps:
        s.add(h)
    s.add(z3.Not(p.goal))
    if s.check() == z3.sat:
        return s.model()
    return None
