"""Sidecar contract language.

Contracts are plain data (python files under /verif/contracts) attached to the
*real* functions by name; expressions are strings in python syntax evaluated to
z3 terms in a namespace built by the engine (formals, ghost lengths, memory
views, old(...), result).  `and/or/not`, chained comparisons, `a if c else b`,
`/ // % **` are rewritten to their logical / mathematical meaning first.
"""
import ast
import z3
from . import smt

# ------------------------------------------------------------------ registry

CREG = {}      # C:   "file.c:function" -> CContract
PYREG = {}     # python loop functions: "module:qualname" -> PyContract


class CContract:
    def __init__(self, key, **kw):
        self.key = key
        self.file, self.name = key.split(":")
        self.requires = list(kw.pop("requires", []))
        self.ensures = list(kw.pop("ensures", []))
        self.assigns = list(kw.pop("assigns", []))       # formal pointer names whose regions may be written
        self.loops = dict(kw.pop("loops", {}))           # ordinal or header text -> [invariant strings]
        self.lens = dict(kw.pop("lens", {}))             # formal pointer -> length expression (elements)
        self.ghosts = list(kw.pop("ghosts", []))         # extra integer ghost names usable in lens/requires
        self.defined = dict(kw.pop("defined", {}))       # formal pointer -> True | False | "lo..hi" expr string
        self.outputs = dict(kw.pop("outputs", {}))       # formal pointer -> "lo..hi" cells promised defined on return
        self.returns = kw.pop("returns", None)           # for pointer results: dict(len=expr, fresh=True, kills=[formal exprs])
        self.rne = kw.pop("rne", "uf")                   # how the MAGIC rounding idiom is modelled
        self.props = list(kw.pop("props", []))           # properties the functional clauses belong to
        self.wellformed = kw.pop("wellformed", None)     # note on what a well-formed call is (C20)
        self.trusted = kw.pop("trusted", False)          # contract assumed, body not verified (listed in evidence)
        self.locals_ = dict(kw.pop("locals", {}))        # let-definitions usable in all clauses: name -> expr
        self.omp = dict(kw.pop("omp", {}))               # loop key -> dict(shared_written={...}) extra info
        self.hints = dict(kw.pop("hints", {}))
        self.asserts = dict(kw.pop("asserts", {}))       # loop key (end of body) or "end" -> [proof steps: proved, then assumed]
        self.note = kw.pop("note", "")
        # `x++` statements that only count iterations of a loop whose termination is not proved: text -> reason.  Their overflow
        # obligation is not generated; the reason is listed in the evidence (termination is outside partial correctness)
        self.iteration_counters = dict(kw.pop("iteration_counters", {}))
        self.nothrow = kw.pop("nothrow", True)
        if kw:
            raise TypeError("unknown contract fields %s" % list(kw))


def cfn(key, **kw):
    c = CContract(key, **kw)
    CREG[key] = c
    return c


def find_c(name, prefer_file=None):
    if prefer_file and (prefer_file + ":" + name) in CREG:
        return CREG[prefer_file + ":" + name]
    for k, c in CREG.items():
        if c.name == name:
            return c
    return None


# -------------------------------------------------------- expression rewriting

class _Rewrite(ast.NodeTransformer):
    def visit_BoolOp(self, node):
        self.generic_visit(node)
        fn = "And_" if isinstance(node.op, ast.And) else "Or_"
        return ast.copy_location(ast.Call(ast.Name(fn, ast.Load()), node.values, []), node)

    def visit_UnaryOp(self, node):
        self.generic_visit(node)
        if isinstance(node.op, ast.Not):
            return ast.copy_location(ast.Call(ast.Name("Not_", ast.Load()), [node.operand], []), node)
        return node

    def visit_IfExp(self, node):
        self.generic_visit(node)
        return ast.copy_location(ast.Call(ast.Name("If_", ast.Load()), [node.test, node.body, node.orelse], []), node)

    def visit_Compare(self, node):
        self.generic_visit(node)
        parts = []
        left = node.left
        for op, right in zip(node.ops, node.comparators):
            name = {ast.Eq: "eq_", ast.NotEq: "ne_", ast.Lt: "lt_", ast.LtE: "le_", ast.Gt: "gt_",
                    ast.GtE: "ge_"}.get(type(op))
            if name is None:
                raise SyntaxError("unsupported comparison in contract")
            parts.append(ast.Call(ast.Name(name, ast.Load()), [left, right], []))
            left = right
        if len(parts) == 1:
            return ast.copy_location(parts[0], node)
        return ast.copy_location(ast.Call(ast.Name("And_", ast.Load()), parts, []), node)

    def visit_BinOp(self, node):
        self.generic_visit(node)
        name = {ast.Div: "rdiv_", ast.FloorDiv: "fdiv_", ast.Mod: "mod_", ast.Pow: "pow_"}.get(type(node.op))
        if name:
            return ast.copy_location(ast.Call(ast.Name(name, ast.Load()), [node.left, node.right], []), node)
        return node


_compiled = {}


def compile_expr(s):
    if s not in _compiled:
        tree = ast.parse(s.strip(), mode="eval")
        tree = _Rewrite().visit(tree)
        ast.fix_missing_locations(tree)
        _compiled[s] = compile(tree, "<contract:%s>" % s[:40], "eval")
    return _compiled[s]


def _num(x):
    if isinstance(x, bool):
        return x
    if isinstance(x, float):
        return smt.real(x)
    return x


def _both(a, b):
    a, b = _num(a), _num(b)
    if z3.is_bool(a) and not z3.is_bool(b):
        a = smt.integer(a)
    if z3.is_bool(b) and not z3.is_bool(a):
        b = smt.integer(b)
    return a, b


def _And(*xs):
    xs = [smt.boolean(x) for x in xs]
    return z3.And(*xs) if len(xs) != 1 else xs[0]


def _Or(*xs):
    xs = [smt.boolean(x) for x in xs]
    return z3.Or(*xs) if len(xs) != 1 else xs[0]


def _pow(a, b):
    if isinstance(b, int) and b >= 0:
        r = 1
        for _ in range(b):
            r = r * a
        return r
    if isinstance(a, (int, float)) and isinstance(b, (int, float)):
        return a ** b
    raise ValueError("pow_ needs a non-negative constant exponent")


def _eq(a, b):
    a, b = _both(a, b)
    return a == b


BASE_NS = {
    "And_": _And, "Or_": _Or, "Not_": lambda x: z3.Not(smt.boolean(x)),
    "If_": lambda c, a, b: z3.If(smt.boolean(c), *_both(a, b)) if not isinstance(c, bool) else (a if c else b),
    "eq_": _eq, "ne_": lambda a, b: z3.Not(_eq(a, b)) if not (isinstance(a, (int, float)) and isinstance(b, (int, float))) else a != b,
    "lt_": lambda a, b: _num(a) < _num(b), "le_": lambda a, b: _num(a) <= _num(b),
    "gt_": lambda a, b: _num(a) > _num(b), "ge_": lambda a, b: _num(a) >= _num(b),
    "rdiv_": lambda a, b: smt.real(a) / smt.real(b),
    "fdiv_": lambda a, b: (a // b) if isinstance(a, int) and isinstance(b, int) else smt.pyfloordiv(a, b),
    "mod_": lambda a, b: (a % b) if isinstance(a, int) and isinstance(b, int) else smt.pymod(a, b),
    "pow_": _pow,
    "implies": lambda a, b: z3.Implies(smt.boolean(a), smt.boolean(b)),
    "iff": lambda a, b: smt.boolean(a) == smt.boolean(b),
    "ite": lambda c, a, b: z3.If(smt.boolean(c), *_both(a, b)),
    "forall": smt.forall, "exists": smt.exists, "forall2": smt.forall2,
    "real": smt.real, "toint": smt.floor_int, "floor": lambda x: z3.ToReal(smt.floor_int(x)),
    "is_int": lambda x: z3.IsInt(smt.real(x)),
    "rne": lambda x: smt.rne_u(smt.real(x)), "rne_exact": smt.rne_exact,
    "sqrt": lambda x: smt.sqrt_f(smt.real(x)), "sin": lambda x: smt.sin_f(z3.simplify(smt.real(x))),
    "cos": lambda x: smt.cos_f(z3.simplify(smt.real(x))),
    "atan2": lambda a, b: smt.atan2_f(z3.simplify(smt.real(a)), z3.simplify(smt.real(b))),
    "fabs": lambda x: z3.If(smt.real(x) >= 0, smt.real(x), -smt.real(x)),
    "abs_": lambda x: z3.If(x >= 0, x, -x),
    "min_": lambda a, b: z3.If(a <= b, a, b), "max_": lambda a, b: z3.If(a >= b, a, b),
    "tdiv": smt.tdiv, "tmod": smt.tmod,
    "INT_MAX": smt.INT_MAX, "INT_MIN": smt.INT_MIN, "pi": smt.PI,
    "true": z3.BoolVal(True), "false": z3.BoolVal(False),
    "z3": z3,
}


def evaluate(s, ns):
    full = dict(CONC_NS if MODE == "conc" else BASE_NS)
    full.update(ns)
    try:
        full["__builtins__"] = {"len": len, "range": range, "int": int, "abs": abs, "sum": sum, "min": min,
                                "max": max, "all": all, "any": any, "tuple": tuple, "list": list,
                                "enumerate": enumerate, "zip": zip}
        v = eval(compile_expr(s), full)
    except Exception as e:
        raise ContractError("cannot evaluate contract clause %r: %s: %s" % (s, type(e).__name__, e))
    return v


class ContractError(Exception):
    pass


class Borderline(Exception):
    """concrete evaluation hit a comparison too close to call in floating point"""


# ------------------------------------------------- concrete (replay) interpretation of the same clauses
MODE = "sym"
from fractions import Fraction as _Fr
import math as _math
EQ_TOL = 1e-6
BORDER = 1e-9


def _fr(x):
    if isinstance(x, bool):
        return int(x)
    if isinstance(x, (int, _Fr)):
        return x
    return _Fr(float(x))


def _close(a, b, tol):
    a, b = _fr(a), _fr(b)
    return abs(a - b) <= _Fr(tol) * max(1, abs(a), abs(b))


def _ceq(a, b):
    if isinstance(a, bool) or isinstance(b, bool):
        return bool(a) == bool(b)
    if isinstance(a, int) and isinstance(b, int):
        return a == b
    return _close(a, b, EQ_TOL)


def _cord(op):
    def f(a, b):
        a, b = _fr(a), _fr(b)
        if not (isinstance(a, int) and isinstance(b, int)) and a != b and _close(a, b, BORDER):
            raise Borderline()
        return {"<": a < b, "<=": a <= b, ">": a > b, ">=": a >= b}[op]
    return f


def _crne(x):
    x = _fr(x)
    f = _math.floor(x + _Fr(1, 2))
    if f == x + _Fr(1, 2) and f % 2 != 0:
        f -= 1
    return f


def _ctdiv(a, b):
    q = abs(a) // abs(b)
    return q if (a >= 0) == (b >= 0) else -q


def _crsum(name, n, f, lo=0, sort="int"):
    t = 0
    for q in range(lo, n):
        t = t + _fr(f(q))
    return t


CONC_NS = {
    "And_": lambda *xs: all(bool(x) for x in xs), "Or_": lambda *xs: any(bool(x) for x in xs),
    "Not_": lambda x: not x, "If_": lambda c, a, b: a if c else b, "ite": lambda c, a, b: a if c else b,
    "eq_": _ceq, "ne_": lambda a, b: not _ceq(a, b),
    "lt_": _cord("<"), "le_": _cord("<="), "gt_": _cord(">"), "ge_": _cord(">="),
    "rdiv_": lambda a, b: _Fr(_fr(a)) / _fr(b), "fdiv_": lambda a, b: a // b, "mod_": lambda a, b: a % b,
    "pow_": lambda a, b: a ** b,
    "implies": lambda a, b: (not a) or bool(b), "iff": lambda a, b: bool(a) == bool(b),
    "forall": lambda lo, hi, body, name="q": all(bool(body(q)) for q in range(lo, hi)),
    "exists": lambda lo, hi, body, name="q": any(bool(body(q)) for q in range(lo, hi)),
    "forall2": lambda lo, hi, body, name="q": all(bool(body(a, b)) for a in range(lo, hi) for b in range(lo, hi)),
    "real": _fr, "toint": lambda x: _math.floor(_fr(x)), "floor": lambda x: _math.floor(_fr(x)),
    "is_int": lambda x: _fr(x) == _math.floor(_fr(x)),
    "rne": _crne, "rne_exact": _crne,
    "sqrt": lambda x: _Fr(_math.sqrt(float(x))), "sin": lambda x: _Fr(_math.sin(float(x))),
    "cos": lambda x: _Fr(_math.cos(float(x))), "atan2": lambda a, b: _Fr(_math.atan2(float(a), float(b))),
    "fabs": lambda x: abs(_fr(x)), "abs_": abs, "min_": min, "max_": max,
    "tdiv": _ctdiv, "tmod": lambda a, b: a - b * _ctdiv(a, b),
    "INT_MAX": smt.INT_MAX, "INT_MIN": smt.INT_MIN, "pi": _Fr(_math.pi), "true": True, "false": False,
    "rsum": _crsum, "count": lambda name, n, pred, lo=0: sum(1 for q in range(lo, n) if pred(q)),
    "reveal": lambda *a: True,
}


def sym_or_conc(name):
    """dispatcher used by spec functions: the symbolic or the concrete interpretation of a base operation"""
    def f(*a):
        return (CONC_NS if MODE == "conc" else BASE_NS)[name](*a)
    return f


rne = sym_or_conc("rne")
ite = sym_or_conc("ite")
rdiv = sym_or_conc("rdiv_")
sqrt_ = sym_or_conc("sqrt")


# ------------------------------------------------- recursive spec functions

class AxiomSink:
    """Instances of the unfolding axioms of recursive spec functions created while
    contract clauses are evaluated; the engine drains them into its fact list."""

    def __init__(self):
        self.facts = []
        self.fns = {}
        self.seen = set()
        self.cinst = {}

    def drain(self):
        f, self.facts = self.facts, []
        return f

    def reset(self):
        self.facts = []
        self.seen = set()
        self.cinst = {}


SINK = AxiomSink()
_QQ = z3.Int("qq!bound")


def rsum(name, n, f, lo=0, sort="int"):
    """sum_{q=lo}^{n-1} f(q) as an uninterpreted function of n with its defining
    recursion instantiated at n (and nothing else)."""
    n = z3.simplify(smt.integer(n))
    lo_t = smt.integer(lo)
    body = f(_QQ)
    body = smt.real(body) if sort == "real" else smt.integer(body)
    key = (name, sort, lo_t.sexpr(), body.sexpr())
    if key not in SINK.fns:
        SINK.fns[key] = z3.Function("%s!%d" % (name, len(SINK.fns)), smt.I, smt.R if sort == "real" else smt.I)
    fn = SINK.fns[key]
    inst = (key, n.sexpr())
    if inst not in SINK.seen:
        SINK.seen.add(inst)
        zero = z3.RealVal(0) if sort == "real" else z3.IntVal(0)
        SINK.facts.append(z3.Implies(n <= lo_t, fn(n) == zero))
        nm1 = z3.simplify(n - 1)
        step = f(nm1)        # re-evaluated (not substituted) so that opaque spec functions reveal themselves at nm1
        step = smt.real(step) if sort == "real" else smt.integer(step)
        SINK.facts.append(z3.Implies(n > lo_t, fn(n) == fn(nm1) + step))
    return fn(n)


_PP = [z3.Int("pp!bound%d" % k) for k in range(4)]


def rsump(name, n, f, params, lo=0, sort="int"):
    """parametric version: sum_{q=lo}^{n-1} f(q, *params) as an uninterpreted function of (n, params).  The unfolding is instantiated at
    the (n, params) it is applied to, so it is meant for *ground* parameters (loop variables, ghost constants), not for variables
    bound by an enclosing quantifier (the instance would be about an unrelated constant: sound but useless)."""
    params = [z3.simplify(smt.integer(p)) for p in params]
    n = z3.simplify(smt.integer(n))
    lo_t = smt.integer(lo)
    body = f(_QQ, *_PP[:len(params)])
    body = smt.real(body) if sort == "real" else smt.integer(body)
    key = (name, sort, lo_t.sexpr(), body.sexpr(), len(params))
    if key not in SINK.fns:
        SINK.fns[key] = z3.Function("%s!%d" % (name, len(SINK.fns)), *([smt.I] * (1 + len(params)) + [smt.R if sort == "real" else smt.I]))
    fn = SINK.fns[key]
    inst = (key, n.sexpr(), tuple(p.sexpr() for p in params))
    if inst not in SINK.seen:
        SINK.seen.add(inst)
        zero = z3.RealVal(0) if sort == "real" else z3.IntVal(0)
        SINK.facts.append(z3.Implies(n <= lo_t, fn(n, *params) == zero))
        nm1 = z3.simplify(n - 1)
        step = f(nm1, *params)
        step = smt.real(step) if sort == "real" else smt.integer(step)
        SINK.facts.append(z3.Implies(n > lo_t, fn(n, *params) == fn(nm1, *params) + step))
    return fn(n, *params)


def _crsump(name, n, f, params, lo=0, sort="int"):
    t = 0
    for q in range(lo, n):
        t = t + _fr(f(q, *params))
    return t


def _count_lemmas(fn, key, n, params, lo_t):
    """facts about a count (a sum of 0/1 terms) that need induction and are therefore instantiated, not derived: 0 <= c(n) <= n - lo,
    and for two instances of the same count  n <= m  ->  0 <= c(m) - c(n) <= m - n.   (Induction steps: lemma:count_* units.)"""
    t = fn(n, *params)
    SINK.facts.append(z3.And(t >= 0, z3.Implies(n >= lo_t, t <= n - lo_t), z3.Implies(n <= lo_t, t == 0)))
    ck = ("count-instances", key, tuple(p.sexpr() for p in params))
    prev = SINK.cinst.setdefault(ck, [])
    for m in prev:
        if m.eq(n):
            continue
        tm = fn(m, *params)
        SINK.facts.append(z3.And(z3.Implies(n <= m, z3.And(tm - t >= 0, tm - t <= m - n)),
                                 z3.Implies(m <= n, z3.And(t - tm >= 0, t - tm <= n - m))))
    if not any(m.eq(n) for m in prev):
        prev.append(n)


def count(name, n, pred, lo=0):
    r = rsum(name, n, lambda q: z3.If(smt.boolean(pred(q)), z3.IntVal(1), z3.IntVal(0)), lo, "int")
    if MODE != "conc" and z3.is_app(r) and r.num_args() == 1:
        ik = ("count-lemmas", r.sexpr())
        if ik not in SINK.seen:
            SINK.seen.add(ik)
            _count_lemmas(lambda x: r.decl()(x), r.decl().name(), r.arg(0), [], smt.integer(lo))
    return r


def countp(name, n, pred, params, lo=0):
    """parametric count: #{q in [lo, n): pred(q, *params)} with the count lemmas instantiated"""
    r = rsump(name, n, lambda q, *ps: z3.If(smt.boolean(pred(q, *ps)), z3.IntVal(1), z3.IntVal(0)), params, lo, "int")
    if MODE != "conc" and z3.is_app(r):
        ik = ("count-lemmas", r.sexpr())
        if ik not in SINK.seen:
            SINK.seen.add(ik)
            args = [r.arg(k) for k in range(r.num_args())]
            _count_lemmas(lambda x, *ps: r.decl()(x, *ps), r.decl().name(), args[0], args[1:], smt.integer(lo))
    return r


_OPAQUE = {}


def opaque(name, fn, sort="real"):
    """spec function hidden behind an uninterpreted symbol; its definition is revealed only at the
    argument tuples it is applied to (instances go to the axiom sink)."""
    def call(*args):
        if MODE == "conc":
            return fn(*args)
        zargs = []
        for a in args:
            if hasattr(a, "ptr") and hasattr(a, "state"):      # ArrView: underlying array + offset
                m = a.state.mem[a.ptr.region.id]
                zargs += [m.vals, a.ptr.off]
            elif isinstance(a, (int, bool)):
                zargs.append(z3.IntVal(int(a)))
            elif z3.is_expr(a) and a.sort() == smt.I:
                zargs.append(z3.simplify(a))
            elif isinstance(a, float):
                zargs.append(smt.real(a))
            else:
                zargs.append(a)
        sig = tuple(z.sort() for z in zargs)
        key = (name, tuple(str(x) for x in sig))
        if key not in _OPAQUE:
            _OPAQUE[key] = z3.Function("%s$%d" % (name, len(_OPAQUE)), *(list(sig) + [smt.R if sort == "real" else smt.I]))
        f = _OPAQUE[key]
        t = f(*zargs)
        ik = ("opaque", t.sexpr())
        if ik not in SINK.seen:
            SINK.seen.add(ik)
            SINK.facts.append(t == fn(*args))
        return t
    return call


BASE_NS["rsum"] = rsum
BASE_NS["rsump"] = rsump
CONC_NS["rsump"] = _crsump
BASE_NS["countp"] = countp
CONC_NS["countp"] = lambda name, n, pred, params, lo=0: sum(1 for q in range(lo, n) if pred(q, *params))
BASE_NS["reveal"] = lambda *a: z3.BoolVal(True)


_blk = z3.Function("val$", smt.R, smt.R)


def block(x):
    """names an intermediate value of a spec function: val$(x) with the instance val$(x) == x.  Products are then
    formed with the named value (as the code forms them with a program variable) instead of being flattened
    through its definition, which keeps code and spec congruent under the product abstraction."""
    if MODE == "conc" or isinstance(x, (int, float, _Fr)):
        return x
    x = smt.real(x)
    t = _blk(x)
    ik = ("blk", t.sexpr())
    if ik not in SINK.seen:
        SINK.seen.add(ik)
        SINK.facts.append(t == x)
    return t


def opaque_fn(name, fn, sort="real"):
    return opaque(name, fn, sort)


def macro_fn(name, fn, nargs, sort="int"):
    """non-recursive spec function of integer arguments given by one quantified definition  forall a: f(a) == fn(a)  with pattern f(a).
    Unlike `opaque_fn` the definition is available at every instance the solver matches, also under quantifiers; use it to keep
    non-linear index arithmetic out of quantified invariants."""
    def call(*args):
        if MODE == "conc":
            return fn(*args)
        key = ("macro", name, nargs, sort)
        if key not in SINK.fns:
            SINK.fns[key] = z3.Function("%s$m%d" % (name, len(SINK.fns)), *([smt.I] * nargs + [smt.R if sort == "real" else smt.I]))
        f = SINK.fns[key]
        ik = ("macro-def", name, f.name())
        if ik not in SINK.seen:
            SINK.seen.add(ik)
            vs = [z3.Int("mv!%s!%d" % (name, k)) for k in range(nargs)]
            body = fn(*vs)
            body = smt.real(body) if sort == "real" else smt.integer(body)
            SINK.facts.append(z3.ForAll(vs, f(*vs) == body, patterns=[f(*vs)]))
        return f(*[smt.integer(a) for a in args])
    return call


BASE_NS["macro_fn"] = macro_fn
CONC_NS["macro_fn"] = lambda name, fn, nargs, sort="int": fn
BASE_NS["opaque_fn"] = opaque_fn
CONC_NS["opaque_fn"] = lambda name, fn, sort="real": fn


def register_spec(**fns):
    BASE_NS.update(fns)
    CONC_NS.update(fns)
BASE_NS["count"] = count
