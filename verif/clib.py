"""In-process ctypes access to the replay library (built from $REPO/src on every run) for bounded stand-ins."""
import ctypes
import numpy as np
from . import creplay

_lib = None


def lib():
    global _lib
    if _lib is None:
        _lib = ctypes.CDLL(creplay.build("plain"))
    return _lib


def ptr(a):
    return a.ctypes.data_as(ctypes.c_void_p)


def connectedpixels(data, threshold, con8=1):
    data = np.ascontiguousarray(data, np.float32)
    labels = np.full(data.shape, -7, np.int32)
    f = lib().connectedpixels
    f.restype = ctypes.c_int
    n = f(ptr(data), ptr(labels), ctypes.c_float(threshold), ctypes.c_int(0), ctypes.c_int(con8),
          ctypes.c_int(data.shape[0]), ctypes.c_int(data.shape[1]))
    return n, labels


def sparse_connectedpixels(v, i, j, threshold):
    v = np.ascontiguousarray(v, np.float32); i = np.ascontiguousarray(i, np.uint16); j = np.ascontiguousarray(j, np.uint16)
    labels = np.full(len(v), -7, np.int32)
    f = lib().sparse_connectedpixels
    f.restype = ctypes.c_int
    n = f(ptr(v), ptr(i), ptr(j), ctypes.c_int(len(v)), ctypes.c_float(threshold), ptr(labels))
    return n, labels


def sparse_connectedpixels_splat(v, i, j, threshold, ni, nj):
    v = np.ascontiguousarray(v, np.float32); i = np.ascontiguousarray(i, np.uint16); j = np.ascontiguousarray(j, np.uint16)
    labels = np.zeros(len(v), np.int32)
    Z = np.full((ni + 2) * (nj + 2), -5, np.int32)
    f = lib().sparse_connectedpixels_splat
    f.restype = ctypes.c_int
    n = f(ptr(v), ptr(i), ptr(j), ctypes.c_int(len(v)), ctypes.c_float(threshold), ptr(labels), ptr(Z), ctypes.c_int(ni), ctypes.c_int(nj))
    return n, labels


def set_threads(n):
    lib().cimaged11_omp_set_num_threads(ctypes.c_int(int(n)))


def localmaxlabel(data, fill_labels=-7, fill_wrk=77):
    data = np.ascontiguousarray(data, np.float32)
    labels = np.full(data.shape, fill_labels, np.int32)
    wrk = np.full(data.shape, fill_wrk, np.uint8)
    f = lib().localmaxlabel
    f.restype = ctypes.c_int
    n = f(ptr(data), ptr(labels), ptr(wrk), ctypes.c_int(data.shape[0]), ctypes.c_int(data.shape[1]))
    return n, labels


def sparse_localmaxlabel(v, i, j):
    v = np.ascontiguousarray(v, np.float32); i = np.ascontiguousarray(i, np.uint16); j = np.ascontiguousarray(j, np.uint16)
    n = len(v)
    MV = np.full(n, 5.5, np.float32); iMV = np.full(n, -3, np.int32); labels = np.full(n, -9, np.int32)
    f = lib().sparse_localmaxlabel
    f.restype = ctypes.c_int
    r = f(ptr(v), ptr(i), ptr(j), ctypes.c_int(n), ptr(MV), ptr(iMV), ptr(labels))
    return r, labels
