"""pysym (engine P, lite): symbolic execution of the python AST of small loop functions with state merging.

The function's source is read with inspect from the object imported from $REPO, parsed with ast, and its statements
are interpreted over symbolic values (verif.symtrace.S / object arrays): expressions are evaluated by *calling the real
python operations* (np.dot, np.trace, methods of the real objects passed in); an `if` whose condition is symbolic
executes both branches and merges the variables with ite; `for` loops over concrete iterables (e.g. the elements of a
real symmetry group object) are unrolled completely.  Subset: Assign, AugAssign, If, For (concrete iterable), Return at
the end, Expr, Assert (ignored), Pass.  Anything else makes the unit UNDECIDED."""
import ast
import inspect
import textwrap
import numpy as np
import z3
from . import smt, symtrace as ST


class Unsupported(Exception):
    pass


def _merge(c, a, b):
    """ite(c, a, b) on scalars / arrays / python numbers"""
    if a is b:
        return a
    if isinstance(a, np.ndarray) or isinstance(b, np.ndarray):
        a = np.asarray(a, dtype=object)
        b = np.asarray(b, dtype=object)
        a, b = np.broadcast_arrays(a, b)
        out = np.empty(a.shape, dtype=object)
        for idx in np.ndindex(*a.shape):
            out[idx] = _merge(c, a[idx], b[idx])
        return out
    if isinstance(a, (list, tuple)) and isinstance(b, (list, tuple)) and len(a) == len(b):
        return type(a)(_merge(c, x, y) for x, y in zip(a, b))
    try:
        ta, tb = ST._t(a), ST._t(b)
    except ST.Unsupported:
        if a == b:
            return a
        raise Unsupported("cannot merge values of type %s / %s" % (type(a), type(b)))
    if ta.eq(tb):
        return a
    if ta.sort() != tb.sort():
        ta, tb = smt.real(ta), smt.real(tb)
    return ST.S(z3.If(c, ta, tb))


class Exec:
    def __init__(self, fn, extra_globals=None):
        self.fn = fn
        src = textwrap.dedent(inspect.getsource(fn))
        self.tree = ast.parse(src).body[0]
        self.globals = dict(fn.__globals__)
        if extra_globals:
            self.globals.update(extra_globals)
        self.source = src

    def call(self, *args, **kwargs):
        sig = inspect.signature(self.fn)
        ba = sig.bind(*args, **kwargs)
        ba.apply_defaults()
        env = dict(ba.arguments)
        r = self.block(self.tree.body, env)
        if r is None:
            raise Unsupported("function does not end with return")
        return r

    def ev(self, node, env):
        code = compile(ast.Expression(node), "<pysym>", "eval")
        return eval(code, self.globals, env)

    def block(self, stmts, env):
        """executes statements; returns the returned value if the block ends with `return`, else None"""
        for i, st in enumerate(stmts):
            if isinstance(st, ast.Return):
                if i != len(stmts) - 1:
                    raise Unsupported("return in the middle of a block")
                return ("ret", self.ev(st.value, env))[1] if st.value is not None else None
            self.stmt(st, env)
        return None

    def assign(self, target, val, env):
        if isinstance(target, ast.Name):
            env[target.id] = val
        elif isinstance(target, ast.Tuple):
            vals = list(val)
            for t, v in zip(target.elts, vals):
                self.assign(t, v, env)
        elif isinstance(target, ast.Subscript):
            obj = self.ev(target.value, env)
            idx = self.ev(target.slice, env)
            obj[idx] = val
        else:
            raise Unsupported("assignment target %s" % type(target).__name__)

    def stmt(self, st, env):
        if isinstance(st, ast.Assign):
            v = self.ev(st.value, env)
            for t in st.targets:
                self.assign(t, v, env)
        elif isinstance(st, ast.AugAssign):
            cur = self.ev(st.target, env)
            v = self.ev(st.value, env)
            op = {ast.Add: lambda a, b: a + b, ast.Sub: lambda a, b: a - b, ast.Mult: lambda a, b: a * b}.get(type(st.op))
            if op is None:
                raise Unsupported("augmented operator")
            self.assign(st.target, op(cur, v), env)
        elif isinstance(st, ast.Expr):
            if isinstance(st.value, ast.Constant):
                return
            self.ev(st.value, env)
        elif isinstance(st, (ast.Pass, ast.Assert, ast.Global)):
            return
        elif isinstance(st, ast.If):
            c = self.ev(st.test, env)
            if isinstance(c, ST.SB):
                cs = z3.simplify(c.b)
                if z3.is_true(cs):
                    c = True
                elif z3.is_false(cs):
                    c = False
            if isinstance(c, ST.SB):
                e1, e2 = self.copyenv(env), self.copyenv(env)
                if self.block(st.body, e1) is not None or self.block(st.orelse, e2) is not None:
                    raise Unsupported("return inside a symbolic branch")
                for k in set(e1) | set(e2):
                    if k in e1 and k in e2:
                        env[k] = _merge(c.b, e1[k], e2[k])
                    # a name bound in one branch only stays unbound after the join
            else:
                if self.block(st.body if c else st.orelse, env) is not None:
                    raise Unsupported("return inside a branch")
        elif isinstance(st, ast.For):
            it = self.ev(st.iter, env)
            try:
                items = list(it)
            except TypeError:
                raise Unsupported("for over a non-iterable")
            if len(items) > 5000:
                raise Unsupported("loop over more than 5000 items")
            for item in items:
                self.assign(st.target, item, env)
                if self.block(st.body, env) is not None:
                    raise Unsupported("return inside a loop")
            if st.orelse:
                self.block(st.orelse, env)
        else:
            raise Unsupported("statement %s" % type(st).__name__)

    def copyenv(self, env):
        out = {}
        for k, v in env.items():
            out[k] = v.copy() if isinstance(v, np.ndarray) else v
        return out
