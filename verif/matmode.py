"""Matrix mode of engine T: the real finite-strain code is executed on abstract 3x3 matrix symbols.

Sort Mat is uninterpreted; np.dot, .T, +, -, scalar * and /, np.eye, np.diag, np.linalg.svd / inv / matrix_power are
mapped to function symbols whose algebraic laws are axioms (ring laws of matrices, transpose and inverse laws).  The
svd contract is assumed: F = w.diag(s).vh with w, vh orthogonal and diag(s) symmetric positive definite.
Obligations (E symmetric, F = R.S = V.R, E_lab = R.E_ref.R^T, objectivity, map == per-grain) are then decided at
matrix level by z3 (E-matching on the axioms) instead of over 27 scalar unknowns.
"""
import z3
import numpy as _np
from . import smt

Mat = z3.DeclareSort("Mat")
Vec = z3.DeclareSort("SVec")            # singular values (a diagonal)
mul = z3.Function("mmul", Mat, Mat, Mat)
add = z3.Function("madd", Mat, Mat, Mat)
neg = z3.Function("mneg", Mat, Mat)
smul = z3.Function("smul", smt.R, Mat, Mat)
tr = z3.Function("mT", Mat, Mat)
inv = z3.Function("minv", Mat, Mat)
diag = z3.Function("mdiag", Vec, Mat)
vlog = z3.Function("vlog", Vec, Vec)
spd = z3.Function("spd", Mat, smt.B)
I = z3.Const("I3", Mat)
Z = z3.Const("Z3", Mat)


def axioms():
    A, B, C = z3.Consts("A B C", Mat)
    x, y = z3.Reals("x y")
    v = z3.Const("v", Vec)
    ax = [
        z3.ForAll([A, B, C], mul(mul(A, B), C) == mul(A, mul(B, C)), patterns=[mul(mul(A, B), C), mul(A, mul(B, C))]),
        z3.ForAll([A], mul(A, I) == A), z3.ForAll([A], mul(I, A) == A),
        z3.ForAll([A], mul(A, Z) == Z), z3.ForAll([A], mul(Z, A) == Z),
        z3.ForAll([A, B], add(A, B) == add(B, A)),
        z3.ForAll([A, B, C], add(add(A, B), C) == add(A, add(B, C)), patterns=[add(add(A, B), C), add(A, add(B, C))]),
        z3.ForAll([A], add(A, Z) == A), z3.ForAll([A], add(A, neg(A)) == Z),
        z3.ForAll([A], neg(neg(A)) == A), z3.ForAll([A, B], neg(add(A, B)) == add(neg(A), neg(B))),
        z3.ForAll([A, B, C], mul(A, add(B, C)) == add(mul(A, B), mul(A, C)), patterns=[mul(A, add(B, C))]),
        z3.ForAll([A, B, C], mul(add(A, B), C) == add(mul(A, C), mul(B, C)), patterns=[mul(add(A, B), C)]),
        z3.ForAll([A, B], mul(A, neg(B)) == neg(mul(A, B))), z3.ForAll([A, B], mul(neg(A), B) == neg(mul(A, B))),
        z3.ForAll([x, A, B], smul(x, add(A, B)) == add(smul(x, A), smul(x, B)), patterns=[smul(x, add(A, B))]),
        z3.ForAll([x, A], smul(x, neg(A)) == neg(smul(x, A))),
        z3.ForAll([x, A, B], mul(A, smul(x, B)) == smul(x, mul(A, B))), z3.ForAll([x, A, B], mul(smul(x, A), B) == smul(x, mul(A, B))),
        z3.ForAll([A], smul(1, A) == A),
        z3.ForAll([x, y, A], smul(x, smul(y, A)) == smul(x * y, A)),
        # transpose
        z3.ForAll([A], tr(tr(A)) == A), z3.ForAll([A, B], tr(mul(A, B)) == mul(tr(B), tr(A))),
        z3.ForAll([A, B], tr(add(A, B)) == add(tr(A), tr(B))), z3.ForAll([A], tr(neg(A)) == neg(tr(A))),
        z3.ForAll([x, A], tr(smul(x, A)) == smul(x, tr(A))), tr(I) == I, tr(Z) == Z,
        z3.ForAll([v], tr(diag(v)) == diag(v)),
        # inverse (of invertible matrices; every matrix inverted by the code is a product of invertible ones)
        z3.ForAll([A, B], inv(mul(A, B)) == mul(inv(B), inv(A))), z3.ForAll([A], inv(inv(A)) == A), inv(I) == I,
        z3.ForAll([A], inv(tr(A)) == tr(inv(A))),
        z3.ForAll([A, B], z3.Implies(mul(A, B) == I, inv(A) == B), patterns=[mul(A, B)]),
    ]
    return ax


def core_axioms():
    """associativity and identity only (for the small cancellation lemmas)"""
    A, B, C = z3.Consts("A B C", Mat)
    return [z3.ForAll([A, B, C], mul(mul(A, B), C) == mul(A, mul(B, C)), patterns=[mul(mul(A, B), C), mul(A, mul(B, C))]),
            z3.ForAll([A], mul(A, I) == A), z3.ForAll([A], mul(I, A) == A)]


class SV:
    """vector of singular values"""

    def __init__(self, t):
        self.t = t

    def log(self):
        return SV(vlog(self.t))


class MM:
    __array_priority__ = 2000
    shape = (3, 3)
    ndim = 2

    def __init__(self, t):
        self.t = t

    @property
    def T(self):
        return MM(tr(self.t))

    def __add__(self, o):
        return MM(add(self.t, _m(o)))

    def __radd__(self, o):
        return MM(add(_m(o), self.t))

    def __sub__(self, o):
        return MM(add(self.t, neg(_m(o))))

    def __rsub__(self, o):
        return MM(add(_m(o), neg(self.t)))

    def __neg__(self):
        return MM(neg(self.t))

    def __mul__(self, k):
        return MM(smul(_k(k), self.t))

    __rmul__ = __mul__

    def __truediv__(self, k):
        return MM(smul(1 / _k(k), self.t))

    def copy(self):
        return self


def _k(x):
    if isinstance(x, (int, float)):
        from fractions import Fraction
        return z3.RealVal(str(Fraction(x)))
    return smt.real(x)


def _m(o):
    if isinstance(o, MM):
        return o.t
    raise TypeError("matrix expected, got %r" % type(o))


class LinalgMM:
    def __init__(self, ctx):
        self.ctx = ctx

    def svd(self, F):
        k = len(self.ctx.svds)
        w, vh = MM(z3.Const("w%d" % k, Mat)), MM(z3.Const("vh%d" % k, Mat))
        s = SV(z3.Const("s%d" % k, Vec))
        D = diag(s.t)
        self.ctx.svds.append((F, w, s, vh))
        self.ctx.facts += [mul(tr(w.t), w.t) == I, mul(w.t, tr(w.t)) == I, mul(tr(vh.t), vh.t) == I, mul(vh.t, tr(vh.t)) == I,
                           F.t == mul(w.t, mul(D, vh.t)),
                           # the stretch factors of an invertible F are symmetric positive definite (assumed svd contract: s > 0)
                           spd(mul(tr(vh.t), mul(D, vh.t))), spd(mul(w.t, mul(D, tr(w.t))))]
        return w, s, vh

    def inv(self, M):
        return MM(inv(M.t))

    def matrix_power(self, M, n):
        n = int(n)
        if n < 0:
            M = MM(inv(M.t))
            n = -n
        out = MM(I)
        for _ in range(n):
            out = MM(mul(out.t, M.t)) if not out.t.eq(I) else M
        return out


class NPMM:
    """stands in for `np` while the strain code runs on matrix symbols"""

    def __init__(self):
        self.svds = []
        self.facts = []
        self.linalg = LinalgMM(self)

    def dot(self, a, b):
        return MM(mul(_m(a), _m(b)))

    def eye(self, n, *a, **k):
        return MM(I)

    def diag(self, s):
        if isinstance(s, SV):
            return MM(diag(s.t))
        raise TypeError("diag of %r" % type(s))

    def log(self, s):
        return s.log()

    def allclose(self, a, b, **k):
        return _np.allclose(a, b, **k)

    def __getattr__(self, name):
        return getattr(_np, name)
