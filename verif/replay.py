"""Replay files: one JSON per reported violation, with the obligation, the solver's answer, the model-derived
or searched concrete inputs, what the real code did, and the command that re-runs it."""
import json
import os
import re
import time
import z3
from . import solve

VERIF = os.path.dirname(os.path.dirname(os.path.abspath(__file__)))


def _slug(s):
    return re.sub(r"[^A-Za-z0-9_.-]+", "_", s)[:120]


def write(ctx, v):
    os.makedirs(os.path.join(VERIF, "replays"), exist_ok=True)
    path = os.path.join(VERIF, "replays", "%s-%s.json" % (ctx.prop, _slug(v["obligation"])))
    doc = dict(property=ctx.prop, unit=v["unit"], obligation=v["obligation"], solver_result=v["result"],
               solver_reason=v.get("reason", ""), source_line=v.get("line"), tier=ctx.tier, seed=ctx.seed,
               rerun="./check %s --replay %s" % (ctx.prop, os.path.relpath(path, VERIF)), repo=ctx.repo,
               written=time.strftime("%Y-%m-%dT%H:%M:%SZ", time.gmtime()))
    confirmed = False
    if "witness" in v:
        doc["witness"] = v["witness"]
        confirmed = bool(v.get("confirmed"))
    else:
        ob, ur = v.get("ob"), v.get("unitres")
        model = None
        if ob is not None:
            doc["goal"] = ob.goal.sexpr()[:4000]
            doc["path_condition"] = ob.pc.sexpr()[:2000]
            if v["result"] == "sat":
                try:
                    model = solve.model_for(ob, wall_ms=30000)
                    if model is not None:
                        doc["solver_model"] = {d.name(): str(model[d])[:200] for d in model.decls()[:60] if d.arity() == 0}
                except Exception as e:
                    doc["model_error"] = str(e)
        try:
            if ur is not None and getattr(ur, "replayer", None):
                r = ur.replayer(ur, ob, model, ctx.seed)
            elif ur is not None and ur.kind == "c":
                from . import creplay
                r = creplay.confirm(ur, ob, model, seed=ctx.seed)
            else:
                r = dict(confirmed=False, why="no concrete replay exists for this kind of unit")
        except Exception as e:
            r = dict(confirmed=False, why="replay failed: %s" % e)
        doc["replay"] = r
        confirmed = bool(r.get("confirmed"))
    doc["failing_input_found"] = confirmed
    with open(path, "w") as f:
        json.dump(doc, f, indent=1, default=str)
    return os.path.relpath(path, VERIF), confirmed


def rerun(prop, path):
    doc = json.load(open(path))
    print(json.dumps({k: doc[k] for k in ("property", "unit", "obligation", "solver_result", "failing_input_found")}, indent=1))
    rp = doc.get("replay") or {}
    inp = rp.get("inputs")
    unit = doc.get("unit", "")
    if inp is not None and unit.startswith("c:"):
        import sys
        sys.path.insert(0, VERIF)
        import contracts  # noqa
        from . import cverify, creplay
        key = unit[2:].split("[")[0]
        r = cverify.generate(key)
        res = creplay.check_run(r.ex, inp)
        print("re-run on %s: failed clauses: %s" % (doc.get("repo"), res.get("failed")))
        run = creplay.run_job(r.ex, inp, "asan")
        print("sanitizer: %s" % creplay.sanitizer_report(run))
        return 1 if (res.get("failed") or creplay.sanitizer_report(run)) else 0
    return 1 if doc.get("failing_input_found") else 0
