"""Helpers that turn a symbolic trace of a real python function into obligations (engine T)."""
import importlib
import inspect
import hashlib
import sys
import numpy as np
import z3
from . import smt, symtrace as ST, contract as K
from .units import GenUnit, make_ob, UndecidedError


def repo_module(name):
    """import a module of the repository under verification ($REPO first on sys.path)"""
    import os
    repo = os.environ.get("REPO", "/repo")
    if sys.path[0] != repo:
        if repo in sys.path:
            sys.path.remove(repo)
        sys.path.insert(0, repo)
    m = importlib.import_module(name)
    f = getattr(m, "__file__", "") or ""
    if not f.startswith(repo):
        raise RuntimeError("module %s was imported from %s, not from %s" % (name, f, repo))
    return m


def flat(x):
    if isinstance(x, (list, tuple)):
        out = []
        for y in x:
            out += flat(y)
        return out
    if isinstance(x, np.ndarray):
        return [v for v in x.ravel()]
    return [x]


def trace_obligations(uname, fn, modules, make_args, spec, requires=(), prop=None, max_paths=64, extra=None,
                      outputs=None, lemmas=(), chain_order=None):
    """obligations  requires and path and facts => out[j] == spec[j]  for every feasible path of fn.

    make_args() -> (args, kwargs) of fresh symbolic inputs (same symbols on every call)
    spec(args, kwargs) -> flat list of expected terms (z3 / S / numbers), or None entries to skip
    outputs(result, args, kwargs) -> flat list of produced values (default: flatten the return value)
    """
    K.SINK.reset()
    tr = ST.Tracer(max_paths=max_paths)
    tr.assume = [smt.boolean(r) for r in requires]
    with ST.shimmed(*modules, extra=extra):
        try:
            paths = tr.run(fn, make_args)
        except ST.Unsupported as e:
            raise UndecidedError(str(e))
        except ST.PathLimit as e:
            raise UndecidedError(str(e))
    obs = []
    K.MODE = "sym"
    for pi, (pc, res, args, kwargs) in enumerate(paths):
        got = flat(outputs(res, args, kwargs) if outputs else res)
        want = flat(spec(args, kwargs, pc))
        if len(got) != len(want):
            raise UndecidedError("%s: result has %d components, contract expects %d" % (uname, len(got), len(want)))
        hyps = list(smt.GROUND_FACTS) + list(tr.assume) + list(pc) + list(tr.facts) + [smt.boolean(l) for l in lemmas]
        order = chain_order if chain_order is not None else range(len(got))
        proved = []
        for j in order:
            g, w = got[j], want[j]
            if w is None:
                continue
            goal = ST.term(g) == ST.term(w)
            # with chain_order the components are proof steps: earlier ones (obligations of this same unit) are hypotheses
            o = make_ob("%s.path%d.out%d" % (uname, pi, j), hyps + (proved if chain_order is not None else []), goal,
                        kind="trace", fn=uname, prop=prop)
            o.trace_info = (j, ST.term(w), list(pc))
            proved = proved + [goal]
            o.trivial = z3.is_true(z3.simplify(goal))
            obs.append(o)
    ax = K.SINK.drain()
    for o in obs:
        o.extra_hyps = list(ax)
    from . import treplay
    info = dict(paths=len(paths), numpy_callables=sorted(tr.used_np), replayer=treplay.make_replayer(fn, make_args, list(tr.assume), outputs),
                source_sha=hashlib.sha256(inspect.getsource(getattr(fn, "__wrapped__", fn)).encode()).hexdigest()[:16]
                if hasattr(fn, "__code__") else None)
    return obs, info
