"""Units of verification a property check is made of.

CUnit     : one real C function against its sidecar contract (engine A)
LemmaUnit : obligations stated directly over spec functions / contracts (lemma library, contract-level lemmas)
GenUnit   : obligations produced by another engine (python loop front end, numpy tracer) - same Ob objects
BoundedUnit: a bounded stand-in (run-time contract evaluation on a stated finite space); never counted as proved
"""
import time
import traceback
import z3
from . import contract as K
from .csym import Ob


class UnitResult:
    def __init__(self, name, kind):
        self.name = name
        self.kind = kind
        self.obs = []
        self.results = []
        self.error = None
        self.gen_s = 0.0
        self.bounded = None
        self.info = {}
        self.replayer = None      # callable(ob, model) -> dict(confirmed=bool, ...) when a concrete replay exists


class CUnit:
    kind = "c"

    def __init__(self, key, mode="full"):
        self.key = key
        self.mode = mode
        self.name = "c:%s%s" % (key, "" if mode == "full" else "[safety]")

    def generate(self, ctx):
        from . import cverify
        r = cverify.generate(self.key, options={"mode": self.mode})
        u = UnitResult(self.name, "c")
        u.obs, u.error, u.gen_s = r.obs, r.error, r.gen_s
        ex = r.ex
        u.ex = ex
        if ex is not None:
            u.info = dict(callees=sorted(ex.callees), unrolled=len(ex.unrolled), assumptions=sorted(ex.assumptions_used),
                          dropped_calls=sorted(ex.dropped), file_sha=ex.cf.sha, rne=ex.c.rne,
                          wellformed=ex.c.wellformed)
        return u


def make_ob(name, hyps, goal, kind="lemma", fn="lemma", prop=None):
    o = Ob(name, kind, fn, len(hyps), z3.BoolVal(True), goal, name, None, prop)
    o.facts = list(hyps)
    o.trivial = False
    return o


class LemmaUnit:
    kind = "lemma"

    def __init__(self, name, builder, trusted=False):
        self.name = "lemma:" + name
        self.builder = builder

    def generate(self, ctx):
        u = UnitResult(self.name, "lemma")
        t0 = time.time()
        try:
            K.SINK.reset()
            obs = []
            for item in self.builder():
                nm, hyps, goal = item[:3]
                o = make_ob("%s.%s" % (self.name, nm), list(hyps), goal, fn=self.name)
                obs.append(o)
            ax = K.SINK.drain()
            for o in obs:
                o.extra_hyps = list(ax)
            u.obs = obs
        except Exception as e:
            u.error = "internal: %s\n%s" % (e, traceback.format_exc())
        u.gen_s = time.time() - t0
        return u


class GenUnit:
    """obligations from a generator function returning (obs, info) - used by engines P and T"""
    kind = "gen"

    def __init__(self, name, fn, kind="gen"):
        self.name = name
        self.fn = fn
        self.kind = kind

    def generate(self, ctx):
        u = UnitResult(self.name, self.kind)
        t0 = time.time()
        try:
            out = self.fn(ctx)
            if isinstance(out, tuple):
                u.obs, u.info = out
                u.info = dict(u.info)
                rp = u.info.pop("replayer", None)
                if rp is not None:
                    u.replayer = rp
            else:
                u.obs = out
        except UndecidedError as e:
            u.error = "Unsupported: %s" % e
        except Exception as e:
            u.error = "internal: %s\n%s" % (e, traceback.format_exc())
        u.gen_s = time.time() - t0
        return u


class UndecidedError(Exception):
    pass


class BoundedUnit:
    kind = "bounded"

    def __init__(self, name, fn, bound_text):
        self.name = "bounded:" + name
        self.fn = fn
        self.bound_text = bound_text

    def generate(self, ctx):
        u = UnitResult(self.name, "bounded")
        t0 = time.time()
        try:
            u.bounded = self.fn(ctx)
            u.bounded["bound"] = self.bound_text
        except Exception as e:
            u.error = "internal: %s\n%s" % (e, traceback.format_exc())
        u.gen_s = time.time() - t0
        return u
