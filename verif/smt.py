"""Shared z3 vocabulary of all engines (C kernels, numba loops, numpy traces, lemmas)."""
import z3

R = z3.RealSort()
I = z3.IntSort()
B = z3.BoolSort()

# elementary functions: uninterpreted over the reals; the facts used about them are
# instantiated per occurring argument by the engines (lemmas.trig), never guessed.
sin_f = z3.Function("sin", R, R)
cos_f = z3.Function("cos", R, R)
atan2_f = z3.Function("atan2", R, R, R)
asin_f = z3.Function("asin", R, R)
acos_f = z3.Function("acos", R, R)
sqrt_f = z3.Function("sqrt", R, R)
log_f = z3.Function("log", R, R)
exp_f = z3.Function("exp", R, R)
rne_u = z3.Function("rne", R, R)          # round half to even, uninterpreted view
PI = z3.Real("pi")

INT_MAX = 2147483647
INT_MIN = -2147483648


def real(x):
    if isinstance(x, (int, float)):
        if isinstance(x, float):
            return z3.RealVal(repr(x)) if x != int(x) or abs(x) > 1e15 else z3.RealVal(int(x))
        return z3.RealVal(x)
    if isinstance(x, bool):
        return z3.RealVal(1 if x else 0)
    if z3.is_bool(x):
        return z3.If(x, z3.RealVal(1), z3.RealVal(0))
    if x.sort() == I:
        return z3.ToReal(x)
    return x


def integer(x):
    if isinstance(x, bool):
        return z3.IntVal(1 if x else 0)
    if isinstance(x, int):
        return z3.IntVal(x)
    if z3.is_bool(x):
        return z3.If(x, z3.IntVal(1), z3.IntVal(0))
    return x


def boolean(x):
    if isinstance(x, bool):
        return z3.BoolVal(x)
    if isinstance(x, int):
        return z3.BoolVal(x != 0)
    if z3.is_bool(x):
        return x
    return x != 0


def floor_int(x):
    """floor of a real as Int"""
    return z3.ToInt(real(x))


def rne_exact(x):
    """round-half-to-even of a real, as a Real term (exact definition)"""
    x = real(x)
    f = z3.ToInt(x + z3.Q(1, 2))
    tie = z3.ToReal(f) == x + z3.Q(1, 2)
    return z3.ToReal(z3.If(z3.And(tie, f % 2 != 0), f - 1, f))


def trunc_int(x):
    """C conversion real -> integer (toward zero) as Int"""
    x = real(x)
    return z3.If(x >= 0, z3.ToInt(x), -z3.ToInt(-x))


def tdiv(a, b):
    """C integer division (truncating) on z3 Ints, b != 0"""
    a, b = integer(a), integer(b)
    q = a / b  # z3 Int div: floor for positive divisor, (euclidean)
    # euclidean: a = b*q + r, 0<=r<|b|.  truncation: if a<0 and r!=0 adjust toward zero
    r = a % b
    return z3.If(z3.Or(a >= 0, r == 0), q, z3.If(b > 0, q + 1, q - 1))


def tmod(a, b):
    a, b = integer(a), integer(b)
    return a - b * tdiv(a, b)


def pyfloordiv(a, b):
    """python // on ints, b != 0"""
    a, b = integer(a), integer(b)
    q = a / b
    r = a % b
    # euclid -> floor: for b>0 identical; for b<0: floor = q if r==0 else q-1 ... (euclid q rounds so r>=0)
    return z3.If(z3.Or(b > 0, r == 0), q, q - 1)


def pymod(a, b):
    return integer(a) - integer(b) * pyfloordiv(a, b)


def conj(xs):
    xs = [x for x in xs if not (z3.is_true(x))]
    if not xs:
        return z3.BoolVal(True)
    if len(xs) == 1:
        return xs[0]
    return z3.And(*xs)


def _const(x):
    if isinstance(x, int):
        return x
    if z3.is_expr(x):
        x = z3.simplify(x)
        if z3.is_int_value(x):
            return x.as_long()
    return None


_fresh = [0]


def fresh(prefix, sort):
    _fresh[0] += 1
    return z3.Const("%s!%d" % (prefix, _fresh[0]), sort)


def forall(lo, hi, body, name="q"):
    """forall q: lo <= q < hi -> body(q)   (q Int)"""
    klo, khi = _const(lo), _const(hi)
    if klo is not None and khi is not None and khi - klo <= 64:
        return conj([boolean(body(z3.IntVal(i))) for i in range(klo, khi)])
    q = fresh(name, I)
    b = body(q)
    return z3.ForAll([q], z3.Implies(z3.And(integer(lo) <= q, q < integer(hi)), boolean(b)))


def forall2(lo, hi, body, name="q"):
    """forall a, b in [lo, hi): body(a, b)  -- one quantifier over two variables (z3 infers a multi-pattern)"""
    a, b = fresh(name + "a", I), fresh(name + "b", I)
    return z3.ForAll([a, b], z3.Implies(z3.And(integer(lo) <= a, a < integer(hi), integer(lo) <= b, b < integer(hi)),
                                        boolean(body(a, b))))


def exists(lo, hi, body, name="q"):
    q = fresh(name, I)
    b = body(q)
    return z3.Exists([q], z3.And(integer(lo) <= q, q < integer(hi), boolean(b)))


# ground facts about the elementary functions at 0 (trusted, added to every query that mentions them)
GROUND_FACTS = [sin_f(z3.RealVal(0)) == 0, cos_f(z3.RealVal(0)) == 1, sqrt_f(z3.RealVal(0)) == 0,
                sqrt_f(z3.RealVal(1)) == 1]
