"""Subprocess side of the C replay: load the freshly built library, call one function with the given
concrete arguments, print the results as JSON.  Run under LD_PRELOAD=libasan for sanitizer replays."""
import ctypes
import json
import sys
import numpy as np

DT = {"int8": np.int8, "uint8": np.uint8, "int16": np.int16, "uint16": np.uint16, "int32": np.int32,
      "uint32": np.uint32, "int64": np.int64, "uint64": np.uint64, "float": np.float32, "double": np.float64}
CT = {"int8": ctypes.c_int8, "uint8": ctypes.c_uint8, "int16": ctypes.c_int16, "uint16": ctypes.c_uint16,
      "int32": ctypes.c_int32, "uint32": ctypes.c_uint32, "int64": ctypes.c_int64, "uint64": ctypes.c_uint64,
      "float": ctypes.c_float, "double": ctypes.c_double}


def main():
    job = json.load(open(sys.argv[1]))
    lib = ctypes.CDLL(job["lib"])
    if job.get("threads"):
        lib.cimaged11_omp_set_num_threads(ctypes.c_int(int(job["threads"])))
    fn = getattr(lib, job["function"])
    cargs, arrays = [], {}
    libc = ctypes.CDLL(None)
    libc.malloc.restype = ctypes.c_void_p
    libc.malloc.argtypes = [ctypes.c_size_t]
    for a in job["args"]:
        if a["kind"] == "array":
            arr = np.array(a["values"], dtype=DT[a["ctype"]])
            # exact-size libc heap buffer (not a ctypes/pymalloc object) so that the sanitizer sees the true bounds, also for length 0
            ptr = libc.malloc(arr.nbytes)
            if arr.size:
                ctypes.memmove(ptr, arr.ctypes.data, arr.nbytes)
            arrays[a["name"]] = (ptr, a["ctype"], arr.size, arr.nbytes)
            cargs.append(ctypes.c_void_p(ptr))
        else:
            cargs.append(CT[a["ctype"]](a["value"]))
    rt = job.get("restype")
    fn.restype = CT[rt] if rt else None
    ret = fn(*cargs)
    out = {"return": ret if rt else None, "arrays": {}}
    for name, (ptr, ctype, n, nbytes) in arrays.items():
        out["arrays"][name] = np.frombuffer(ctypes.string_at(ptr, nbytes), dtype=DT[ctype], count=n).tolist() if n else []
    print("REPLAY-RESULT " + json.dumps(out))


if __name__ == "__main__":
    main()
