"""./check <Cnn> [--tier quick|thorough] [--replay FILE] : decide one property.

exit 0  every obligation discharged, bounded stand-ins passed (known findings printed as KNOWN-FINDING lines)
exit 1  VIOLATION property=<id> replay=<path> [no-failing-input-found]
exit 2  UNDECIDED (an obligation could not be formed: construct outside the subset, contract does not bind)
exit 3  the checker itself failed (missing tool, vacuity, internal error)
"""
import argparse
import importlib
import json
import os
import sys
import time
import traceback

VERIF = os.path.dirname(os.path.dirname(os.path.abspath(__file__)))


def main(argv=None):
    ap = argparse.ArgumentParser()
    ap.add_argument("prop")
    ap.add_argument("--tier", default=os.environ.get("VERIF_TIER", "quick"))
    ap.add_argument("--replay", default=None)
    ap.add_argument("--only", default=None, help="comma separated unit name substrings (debugging)")
    ap.add_argument("--verbose", "-v", action="store_true")
    args = ap.parse_args(argv)
    tier = args.tier if args.tier in ("quick", "thorough") else "quick"
    seed = int(os.environ.get("VERIF_SEED", "0") or 0)
    os.chdir(VERIF)
    sys.path.insert(0, VERIF)
    from verif import report
    t0 = time.time()
    try:
        if args.replay:
            from verif import replay
            return replay.rerun(args.prop, args.replay)
        mod = importlib.import_module("props.%s" % args.prop)
        ctx = report.Ctx(args.prop, tier, seed, verbose=args.verbose)
        units = mod.units(ctx)
        if args.only:
            keys = args.only.split(",")
            units = [u for u in units if any(k in u.name for k in keys)]
            ctx.partial = True
        code = report.run_property(ctx, mod, units, t0)
    except Exception:
        traceback.print_exc()
        print("CHECKER-ERROR property=%s" % args.prop)
        code = 3
    sys.stdout.flush()
    return code


if __name__ == "__main__":
    sys.exit(main())
