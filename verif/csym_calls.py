"""Calls in C kernels: libc/libm builtins (assumed contracts, listed in evidence) and
user functions, which are applied through their sidecar contract only."""
import z3
from . import smt, ctypes_ as ct, contract as K
from .cfront import norm_text
from .csym import Unsupported, Region, Mem, Ptr, Sc, LV, arr_sort, ArrView, OldNS
from .csym_exec import kids, ntype, BOOL, INT, DOUBLE, PURE_MATH, DROPPED_CALLS


def scan_call_writes(ex, node, name, vars_, mems):
    """which caller variables / regions a call may modify (for loop havoc)"""
    args = kids(node)[1:]
    if name in ("malloc", "calloc", "free", "exit", "realloc", "assert", "__assert_fail", "omp_get_thread_num",
                "omp_get_num_threads", "omp_get_max_threads", "my_get_time", "omp_set_num_threads"):
        if name == "free":
            try:
                mems.add(ex.root_var(args[0]))
            except Unsupported:
                pass
        return
    if name == "memset":
        mems.add(ex.root_var(args[0]))
        return
    c = K.find_c(name, ex.cf.name)
    if c is None:
        raise Unsupported("call to %s: no contract" % name)
    callee = find_fn_node(ex, name)
    formals = [p["name"] for p in kids(callee) if p.get("kind") == "ParmVarDecl"] if callee else None
    for i, a in enumerate(args):
        a0 = a
        while a0.get("kind") in ("ImplicitCastExpr", "ParenExpr", "CStyleCastExpr"):
            a0 = kids(a0)[0]
        if a0.get("kind") == "UnaryOperator" and a0.get("opcode") == "&":
            tgt = kids(a0)[0]
            kind, nm = ex.lvalue_target(tgt)
            (vars_ if kind == "var" else mems).add(nm)
            continue
        if formals is None or i >= len(formals):
            continue
        f = formals[i]
        if f in c.assigns or any(x.startswith(f + "[") for x in c.assigns):
            try:
                mems.add(ex.root_var(a0))
            except Unsupported:
                raise Unsupported("cannot resolve region written by call to %s" % name)


def find_fn_node(ex, name):
    from . import cfront
    if name in ex.cf.functions:
        return ex.cf.functions[name]
    c = K.find_c(name)
    if c is not None:
        try:
            return cfront.load(c.file).functions.get(name)
        except Exception:
            return None
    return None


def call(ex, state, node):
    name = ex.callee_name(node)
    args = kids(node)[1:]
    rt = None
    try:
        rt = ntype(node)
    except Unsupported:
        rt = ("void",)
    if name in DROPPED_CALLS:
        ex.dropped.add(name) if hasattr(ex, "dropped") else None
        return Sc(z3.IntVal(0), INT)
    if name in PURE_MATH:
        vs = [smt.real(ex.rvalue(state, a).t) for a in args]
        if name not in ("sqrt", "sqrtf"):
            vs = [z3.simplify(v) for v in vs]
        x = vs[0]
        if name in ("sqrt", "sqrtf"):
            ex.oblige(state, "domain-sqrt", node, x >= 0)
            r = smt.sqrt_f(x)
            ex.facts.append(z3.Implies(x >= 0, z3.And(r >= 0, r * r == x)))
            ex.facts.append(z3.Implies(x > 0, r > 0))
            ex.assumptions_used.add("libm")
            return Sc(r, DOUBLE)
        if name in ("fabs", "fabsf"):
            return Sc(z3.If(x >= 0, x, -x), DOUBLE)
        if name in ("floor", "floorf"):
            return Sc(z3.ToReal(z3.ToInt(x)), DOUBLE)
        if name == "ceil":
            return Sc(-z3.ToReal(z3.ToInt(-x)), DOUBLE)
        ex.assumptions_used.add("libm")
        if name == "sin":
            r = smt.sin_f(x)
            c_ = smt.cos_f(x)
            ex.facts.append(r * r + c_ * c_ == 1)
            return Sc(r, DOUBLE)
        if name == "cos":
            r = smt.cos_f(x)
            s_ = smt.sin_f(x)
            ex.facts.append(r * r + s_ * s_ == 1)
            return Sc(r, DOUBLE)
        if name == "atan2":
            return Sc(smt.atan2_f(vs[0], vs[1]), DOUBLE)
        if name == "asin":
            ex.oblige(state, "domain-asin", node, z3.And(x >= -1, x <= 1))
            return Sc(smt.asin_f(x), DOUBLE)
        if name == "acos":
            ex.oblige(state, "domain-acos", node, z3.And(x >= -1, x <= 1))
            return Sc(smt.acos_f(x), DOUBLE)
        if name == "log":
            ex.oblige(state, "domain-log", node, x > 0)
            return Sc(smt.log_f(x), DOUBLE)
        if name == "exp":
            return Sc(smt.exp_f(x), DOUBLE)
        raise Unsupported("libm function %s" % name)
    if name == "exit":
        ex.oblige(state, "exit-reachable", node, z3.BoolVal(False))
        state.pc.append(z3.BoolVal(False))
        return None
    if name == "__assert_fail":
        ex.oblige(state, "assert", node, z3.BoolVal(False), label=norm_text(ex.cf.text(args[0])) if args else None)
        state.pc.append(z3.BoolVal(False))
        return None
    if name == "my_get_time":
        return Sc(smt.fresh("time", smt.R), DOUBLE)
    if name in ("omp_get_thread_num", "omp_get_num_threads", "omp_get_max_threads", "omp_get_num_procs"):
        return ex.omp_query(state, name)
    if name == "omp_set_num_threads":
        ex.rvalue(state, args[0])
        return None
    if name in ("malloc", "calloc"):
        if name == "malloc":
            nb = ex.as_int(ex.rvalue(state, args[0]))
        else:
            n1 = ex.as_int(ex.rvalue(state, args[0]))
            n2 = ex.as_int(ex.rvalue(state, args[1]))
            nb = n1 * n2
        ex.oblige(state, "alloc-size", node, nb >= 0)
        reg = Region("%s@%s" % (name, ex.cf.line_of(_off(node))), None, "heap")
        reg.label = "%s:%s" % (name, norm_text(ex.cf.text(node), 40))
        reg.nbytes = nb
        reg.zeroed = name == "calloc"
        defd = z3.K(smt.I, z3.BoolVal(name == "calloc"))
        state.mem[reg.id] = Mem(None, defd, z3.BoolVal(True), z3.IntVal(0))
        ex.heap_owned.add(reg.id)
        ex.region_by_id[reg.id] = reg
        ex.assumptions_used.add("malloc-succeeds-or-checked")
        # allocation may fail: model the NULL outcome only where the code tests for it (pointer compare with NULL
        # evaluates to "not NULL"); a failing allocation that is not tested is outside the property (C20 well-formed call)
        return Ptr(reg, z3.IntVal(0), ("void",))
    if name == "realloc":
        p = ex.rvalue(state, args[0])
        nb = ex.as_int(ex.rvalue(state, args[1]))
        if not isinstance(p, Ptr) or p.region is None or p.region.ctype is None:
            raise Unsupported("realloc of unknown pointer")
        old = state.mem[p.region.id]
        ex.oblige(state, "realloc-base", node, p.off == 0)
        ex.oblige(state, "use-after-free", node, old.alive)
        reg = Region("realloc@%s" % ex.cf.line_of(_off(node)), p.region.ctype, "heap")
        reg.label = "realloc:%s" % norm_text(ex.cf.text(node), 40)
        sz = ct.sizeof(p.region.ctype)
        newlen = nb / sz
        nv = smt.fresh("realloc@v", arr_sort(reg.elem))
        q = smt.fresh("q", smt.I)
        ex.fact(state, z3.ForAll([q], z3.Implies(z3.And(q >= 0, q < old.length, q < newlen),
                                                 z3.Select(nv, q) == z3.Select(old.vals, q))))
        nd = smt.fresh("realloc@def", z3.ArraySort(smt.I, smt.B))
        ex.fact(state, z3.ForAll([q], z3.Select(nd, q) == z3.And(q >= 0, q < old.length, q < newlen,
                                                                z3.Select(old.defd, q))))
        if p.region.ctype[0] == "int":
            lo, hi = ct.int_range(p.region.ctype)
            ex.facts.append(z3.ForAll([q], z3.And(z3.Select(nv, q) >= lo, z3.Select(nv, q) <= hi)))
        state.mem[reg.id] = Mem(nv, nd, z3.BoolVal(True), newlen)
        old.alive = z3.BoolVal(False)
        ex.heap_owned.discard(p.region.id)
        ex.heap_owned.add(reg.id)
        ex.region_by_id[reg.id] = reg
        return Ptr(reg, z3.IntVal(0), ("void",)) if False else Ptr(reg, z3.IntVal(0), p.pointee)
    if name == "free":
        p = ex.rvalue(state, args[0])
        if not isinstance(p, Ptr):
            raise Unsupported("free of non-pointer")
        if p.region is None:
            return None
        m = state.mem[p.region.id]
        ex.oblige(state, "free-base", node, p.off == 0)
        ex.oblige(state, "double-free", node, m.alive)
        if p.region.kind not in ("heap",):
            ex.oblige(state, "free-nonheap", node, z3.BoolVal(False))
        m.alive = z3.BoolVal(False)
        return None
    if name == "memset":
        p = ex.rvalue(state, args[0])
        v = ex.as_int(ex.rvalue(state, args[1]))
        nb = ex.as_int(ex.rvalue(state, args[2]))
        if ex.const_int(v) != 0:
            raise Unsupported("memset with non-zero value")
        m = state.mem[p.region.id]
        sz = ct.sizeof(p.region.ctype)
        n = nb / sz
        ex.oblige(state, "bounds", node, z3.And(nb >= 0, p.off >= 0, p.off + n <= m.length))
        ex.oblige(state, "use-after-free", node, m.alive) if not z3.is_true(m.alive) else None
        q = z3.Int("q!ms%d" % len(ex.obs))
        zero = z3.RealVal(0) if p.region.elem == "real" else z3.IntVal(0)
        m.vals = z3.Lambda([q], z3.If(z3.And(q >= p.off, q < p.off + n), zero, z3.Select(m.vals, q)))
        if not (z3.is_K(m.defd) and z3.is_true(m.defd.arg(0))):
            m.defd = z3.Lambda([q], z3.Or(z3.And(q >= p.off, q < p.off + n), z3.Select(m.defd, q)))
        if ex.access_log is not None:
            ex.access_log.append((p.region, smt.fresh("msidx", smt.I), True, state.pcterm(), node))
        return p
    return call_contract(ex, state, node, name, args, rt)


def _off(node):
    b = node.get("range", {}).get("begin", {})
    if "expansionLoc" in b:
        b = b["expansionLoc"]
    return b.get("offset", 0)


def call_contract(ex, state, node, name, args, rt):
    c = K.find_c(name, ex.cf.name)
    if c is None:
        raise Unsupported("call to %s: no contract" % name)
    callee = find_fn_node(ex, name)
    if callee is None:
        raise Unsupported("call to %s: definition not found" % name)
    formals = [(p["name"], ct.parse(p["type"]["qualType"])) for p in kids(callee) if p.get("kind") == "ParmVarDecl"]
    if len(formals) != len(args):
        raise Unsupported("call to %s: argument count" % name)
    ex.callees.add(c.key)
    actual = {}
    writeback = []      # (formal, var name, temp region)
    for (fname, ftype), a in zip(formals, args):
        v = ex.rvalue(state, a)
        if isinstance(v, tuple) and v[0] == "addr-of-var":
            vname = v[1]
            vt = ex.var_types[vname]
            cur, d = state.vars[vname]
            reg = Region("&" + vname, vt if vt[0] != "arr" else ct.base_scalar(vt), "temp")
            if vt[0] == "ptr":
                state.mem[reg.id] = Mem(None, None, z3.BoolVal(True), z3.IntVal(1), {0: cur})
            else:
                vals = z3.Store(smt.fresh("&" + vname, arr_sort(reg.elem)), 0, cur.t if isinstance(cur, Sc) else 0)
                defd = z3.Store(z3.K(smt.I, z3.BoolVal(False)), 0, d)
                state.mem[reg.id] = Mem(vals, defd, z3.BoolVal(True), z3.IntVal(1))
            v = Ptr(reg, z3.IntVal(0), vt)
            writeback.append((fname, vname, reg))
        if ftype[0] == "ptr":
            if not isinstance(v, Ptr):
                raise Unsupported("call to %s: pointer argument expected for %s" % (name, fname))
            if v.region is not None and v.region.ctype is not None and ftype[1] != ("void",):
                v = Ptr(v.region, v.off, ftype[1])
            actual[fname] = v
        else:
            actual[fname] = ex.convert(state, v, ftype, a)
    pre = state.copy()

    def build_ns(st, extra=None):
        ns = dict(ex.cf.enums)
        try:
            from . import cfront
            ns.update(cfront.load(c.file).enums)
        except Exception:
            pass
        for fname, v in actual.items():
            if isinstance(v, Sc):
                ns[fname] = v.t if v.ct != BOOL else smt.integer(v.t)
            elif v.region is not None:
                ns[fname] = ArrView(ex, st, v)
        ns["defined"] = lambda a, i: a.defined(i)
        ns["length"] = lambda a: a.length
        ns["len_"] = lambda a: a.length
        ns["alive"] = lambda a: a.alive
        if extra:
            ns.update(extra)
        return ns

    ns_pre = build_ns(pre)
    oldns = OldNS({k: v for k, v in ns_pre.items() if isinstance(v, (ArrView,)) or z3.is_expr(v)})
    ns_pre["old"] = oldns
    # ghosts of the callee (e.g. lengths) are existentially bound by the lens equations
    ghost_vals = {}
    for g in c.ghosts:
        ghost_vals[g] = smt.fresh("g_" + g, smt.I)
    ns_pre.update(ghost_vals)
    # lengths of pointer arguments
    for fname, v in actual.items():
        if isinstance(v, Ptr) and fname in c.lens:
            if v.region is None:
                ex.oblige(state, "call.null-arg", node, z3.BoolVal(False), label="%s:%s" % (name, fname))
                continue
            need = smt.integer(K.evaluate(str(c.lens[fname]), ns_pre)) * ct.nscalars(v.pointee)
            m = pre.mem[v.region.id]
            lexp = str(c.lens[fname]).strip()
            if lexp in c.ghosts:
                ex.fact(state, ghost_vals[lexp] == m.length - v.off)
            else:
                ex.oblige(state, "call.length", node, z3.And(v.off >= 0, smt.integer(need) <= m.length - v.off),
                          label="%s:%s" % (name, fname))
            if not z3.is_true(m.alive):
                ex.oblige(state, "use-after-free", node, m.alive, label="%s:%s" % (name, fname))
            d = c.defined.get(fname, True)
            if d is True and not (z3.is_K(m.defd) and z3.is_true(m.defd.arg(0))) and v.region.elem != "ptr":
                vv = ArrView(ex, pre, Ptr(v.region, v.off, v.region.ctype))
                ex.oblige(state, "call.defined", node, smt.forall(0, need, lambda q: vv.defined(q)),
                          label="%s:%s" % (name, fname))
            # inner pointer (T **)
            inner = fname + "[0]"
            if inner in c.lens and v.region.elem == "ptr":
                ip = pre.mem[v.region.id].cells.get(0)
                lexp = str(c.lens[inner]).strip()
                if ip is None or ip.region is None:
                    raise Unsupported("call to %s: inner pointer of %s unknown" % (name, fname))
                im = pre.mem[ip.region.id]
                if lexp in c.ghosts:
                    ex.fact(state, ghost_vals[lexp] == im.length - ip.off)
                else:
                    ex.oblige(state, "call.length", node, smt.integer(K.evaluate(lexp, ns_pre)) <= im.length - ip.off,
                              label="%s:%s" % (name, inner))
                ex.oblige(state, "use-after-free", node, im.alive, label="%s:%s" % (name, inner)) if not z3.is_true(im.alive) else None
    for k, e in c.locals_.items():
        ns_pre[k] = K.evaluate(e, ns_pre)
    for tag, r in ex.clauses(c.requires):
        ex.oblige(state, "call.requires", node, K.evaluate(r, ns_pre), label="%s:%s" % (name, norm_text(r, 50)), prop=tag)
    # distinct buffers: two pointer arguments the callee treats as separate must not overlap when one is assigned
    for f1 in c.assigns:
        base1 = f1.split("[")[0]
        p1 = actual.get(base1)
        if not isinstance(p1, Ptr) or p1.region is None:
            continue
        for f2, p2 in actual.items():
            if f2 == base1 or not isinstance(p2, Ptr) or p2.region is None or p2.region is not p1.region:
                continue
            if base1 in c.lens and f2 in c.lens:
                n1 = smt.integer(K.evaluate(str(c.lens[base1]), ns_pre)) * ct.nscalars(p1.pointee)
                n2 = smt.integer(K.evaluate(str(c.lens[f2]), ns_pre)) * ct.nscalars(p2.pointee)
                ex.oblige(state, "call.alias", node, z3.Or(p1.off + n1 <= p2.off, p2.off + n2 <= p1.off),
                          label="%s:%s/%s" % (name, base1, f2))
    # effect: havoc assigned regions
    for f in c.assigns:
        base = f.split("[")[0]
        p = actual.get(base)
        if not isinstance(p, Ptr) or p.region is None:
            continue
        if f.endswith("[0]") and f != base:
            p = state.mem[p.region.id].cells.get(0)
            if p is None or p.region is None:
                continue
        reg = p.region
        m = state.mem[reg.id]
        if reg.elem == "ptr":
            continue
        oldvals, olddef = m.vals, m.defd
        m.vals = smt.fresh(reg.name + "@v", arr_sort(reg.elem))
        q = smt.fresh("q", smt.I)
        if reg.ctype[0] == "int":
            lo, hi = ct.int_range(reg.ctype)
            ex.facts.append(z3.ForAll([q], z3.And(z3.Select(m.vals, q) >= lo, z3.Select(m.vals, q) <= hi)))
        # cells outside the callee's window [off, off+len) are never touched
        if base in c.lens and f == base:
            n = smt.integer(K.evaluate(str(c.lens[base]), ns_pre)) * ct.nscalars(p.pointee)
            ex.fact(state, z3.ForAll([q], z3.Implies(z3.Or(q < p.off, q >= p.off + n),
                                                     z3.Select(m.vals, q) == z3.Select(oldvals, q))))
        if not (z3.is_K(olddef) and z3.is_true(olddef.arg(0))):
            m.defd = smt.fresh(reg.name + "@def", z3.ArraySort(smt.I, smt.B))
            ex.fact(state, z3.ForAll([q], z3.Implies(z3.Select(olddef, q), z3.Select(m.defd, q))))
            if base in c.lens and f == base:
                ex.fact(state, z3.ForAll([q], z3.Implies(z3.Or(q < p.off, q >= p.off + n),
                                                         z3.Select(m.defd, q) == z3.Select(olddef, q))))
        if ex.access_log is not None:
            ex.access_log.append((reg, smt.fresh("callidx", smt.I), True, state.pcterm(), node))
    if ex.access_log is not None:
        for fname, v in actual.items():
            if isinstance(v, Ptr) and v.region is not None and fname not in c.assigns:
                ex.access_log.append((v.region, smt.fresh("callidx", smt.I), False, state.pcterm(), node))
    # result
    result = None
    retptr = None
    if rt[0] == "ptr":
        spec = c.returns or {}
        if spec.get("kind") == "fresh" or "len" in spec:
            reg = Region("%s()" % name, ct.base_scalar(rt[1]), "heap")
            ln = smt.fresh("%s@len" % name, smt.I)
            state.mem[reg.id] = Mem(smt.fresh("%s@v" % name, arr_sort(reg.elem)),
                                    smt.fresh("%s@def" % name, z3.ArraySort(smt.I, smt.B)), z3.BoolVal(True), ln)
            q = smt.fresh("q", smt.I)
            if reg.ctype[0] == "int":
                lo, hi = ct.int_range(reg.ctype)
                ex.facts.append(z3.ForAll([q], z3.And(z3.Select(state.mem[reg.id].vals, q) >= lo,
                                                      z3.Select(state.mem[reg.id].vals, q) <= hi)))
            ex.heap_owned.add(reg.id)
            ex.region_by_id[reg.id] = reg
            retptr = Ptr(reg, z3.IntVal(0), rt[1])
            for kexpr in spec.get("kills", []):
                kp = actual.get(kexpr.split("[")[0])
                if kexpr.endswith("[0]"):
                    kp = pre.mem[kp.region.id].cells.get(0)
                if kp is not None and kp.region is not None:
                    state.mem[kp.region.id].alive = z3.BoolVal(False)
                    ex.heap_owned.discard(kp.region.id)
            result = ArrView(ex, state, retptr)
        else:
            raise Unsupported("call to %s returns a pointer but its contract has no 'returns'" % name)
    elif rt[0] in ("int", "real"):
        result = ex.fresh_like(name + "@ret", rt)
        if rt[0] == "int":
            lo, hi = ct.int_range(rt)
            ex.facts.append(z3.And(result >= lo, result <= hi))
    ns_post = build_ns(state, extra=ghost_vals)
    ns_post["old"] = oldns
    if result is not None:
        ns_post["result"] = result
    for k, e in c.locals_.items():
        ns_post[k] = K.evaluate(e, ns_post)
    for tag, txt in ex.clauses(c.ensures):
        ex.fact(state, K.evaluate(txt, ns_post))
    for fname, rng in c.outputs.items():
        if fname in ns_post and isinstance(ns_post[fname], ArrView):
            lo, hi = [K.evaluate(x, ns_post) for x in rng.split("..")]
            view = ns_post[fname]
            ex.fact(state, smt.forall(lo, hi, lambda q: view.defined(q)))
    ex.drain_axioms()
    # write back &var temporaries
    for fname, vname, reg in writeback:
        m = state.mem[reg.id]
        vt = ex.var_types[vname]
        if vt[0] == "ptr":
            state.vars[vname] = (m.cells[0], z3.BoolVal(True))
        else:
            state.vars[vname] = (Sc(z3.Select(m.vals, 0), vt), z3.Select(m.defd, 0))
        del state.mem[reg.id]
    if retptr is not None:
        return retptr
    if result is None:
        return None
    return Sc(result, rt)
