"""Drive csym over a list of C functions and solve their obligations."""
import time
import traceback
import z3
from . import cfront, contract as K, solve
from .csym import Unsupported
from .csym_exec import FnExec


class FnResult:
    def __init__(self, key):
        self.key = key
        self.obs = []
        self.results = []
        self.error = None       # Unsupported / ContractError text => undecided (unformed)
        self.ex = None
        self.gen_s = 0.0


def generate(key, options=None):
    fname, name = key.split(":")
    r = FnResult(key)
    t0 = time.time()
    try:
        cf = cfront.load(fname)
        if name not in cf.functions:
            raise Unsupported("function %s not found in %s" % (name, fname))
        c = K.CREG.get(key)
        if c is None:
            raise Unsupported("no contract registered for %s" % key)
        ex = FnExec(cf, name, c, options=options)
        r.ex = ex
        ex.run()
        unused = [k for k in c.loops if k not in ex.loop_keys_used] + \
                 [k for k in c.asserts if k != "end" and ("assert", k) not in ex.loop_keys_used]
        if unused:
            raise Unsupported("contract names loops that do not exist (or are unrolled): %s" % unused)
        r.obs = ex.obs
        ex.drain_axioms()
        for o in r.obs:
            o.facts = ex.facts
            o.extra_hyps = list(o.extra_hyps) + ex.axioms
    except (Unsupported, K.ContractError) as e:
        r.error = "%s: %s" % (type(e).__name__, e)
    except Exception as e:
        r.error = "internal: %s\n%s" % (e, traceback.format_exc())
    r.gen_s = time.time() - t0
    return r


def verify(keys, options=None, fallbacks=True):
    rs = [generate(k, options) for k in keys]
    allobs = [o for r in rs for o in r.obs]
    res = solve.solve_all(allobs, None, fallbacks=fallbacks)
    i = 0
    for r in rs:
        r.results = res[i:i + len(r.obs)]
        i += len(r.obs)
    return rs
