"""Subprocess side of the C20 bounded stand-in: calls the kernels that are NOT under contract on boundary-shaped inputs inside exact-size
libc heap buffers, with the library built from $REPO/src by gcc -fsanitize=address,undefined,float-cast-overflow (LD_PRELOAD=libasan).
Prints `CALL <description>` before every call, so that a sanitizer abort names the failing input, and `SUITE-DONE <n>` at the end."""
import ctypes
import json
import sys
import numpy as np

LIB = None
LIBC = ctypes.CDLL(None)
LIBC.malloc.restype = ctypes.c_void_p
LIBC.malloc.argtypes = [ctypes.c_size_t]
LIBC.free.argtypes = [ctypes.c_void_p]
NCALL = 0


class Buf:
    def __init__(self, arr, dtype):
        self.a = np.ascontiguousarray(arr, dtype=dtype)
        self.p = LIBC.malloc(self.a.nbytes)
        if self.a.nbytes:
            ctypes.memmove(self.p, self.a.ctypes.data, self.a.nbytes)

    @property
    def ptr(self):
        return ctypes.c_void_p(self.p)

    def read(self):
        if not self.a.nbytes:
            return self.a.copy()
        return np.frombuffer(ctypes.string_at(self.p, self.a.nbytes), dtype=self.a.dtype).reshape(self.a.shape).copy()

    def free(self):
        LIBC.free(self.p)


def call(desc, fname, restype, *args):
    global NCALL
    NCALL += 1
    print("CALL %s" % desc, flush=True)
    f = getattr(LIB, fname)
    f.restype = restype
    return f(*[a.ptr if isinstance(a, Buf) else a for a in args])


I = ctypes.c_int


def suite(seed, tier):
    rng = np.random.RandomState(seed)
    big = tier == "thorough"
    # ---- mask_to_coo
    shapes = [(1, 1), (1, 5), (5, 1), (2, 2), (3, 7), (17, 4)] + ([(64, 33), (1, 300)] if big else [])
    for ns, nf in shapes:
        masks = [np.zeros((ns, nf), np.int8), np.ones((ns, nf), np.int8), (rng.rand(ns, nf) < 0.3).astype(np.int8)]
        m = np.zeros((ns, nf), np.int8); m[0, 0] = 1; masks.append(m)
        m = np.zeros((ns, nf), np.int8); m[-1, -1] = 1; masks.append(m)
        for k, m in enumerate(masks):
            for dn in (0, 1):
                nnz = int(m.sum()) + dn
                b = [Buf(m, np.int8), Buf(np.zeros(nnz), np.uint16), Buf(np.zeros(nnz), np.uint16), Buf(np.zeros(ns), np.int32)]
                r = call("mask_to_coo shape=%dx%d mask#%d nnz=%d" % (ns, nf, k, nnz), "mask_to_coo", I, b[0], I(ns), I(nf), b[1], b[2], I(nnz), b[3])
                if dn == 0 and nnz > 0:
                    ii, jj = b[1].read(), b[2].read()
                    ri, rj = np.nonzero(m)
                    if r != 0 or not (np.array_equal(ii, ri) and np.array_equal(jj, rj)):
                        print("WRONG mask_to_coo shape=%dx%d mask#%d" % (ns, nf, k), flush=True)
                for x in b:
                    x.free()
    # ---- compress_duplicates
    for n in [1, 2, 5, 50] + ([1000] if big else []):
        for vmax in (0, 1, 7):
            i = rng.randint(0, vmax + 1, n); j = rng.randint(0, vmax + 1, n)
            i[rng.randint(n)] = vmax
            nt = vmax + 1
            b = [Buf(i, np.int32), Buf(j, np.int32), Buf(np.zeros(n), np.int32), Buf(np.zeros(n), np.int32), Buf(np.zeros(nt), np.int32)]
            r = call("compress_duplicates n=%d vmax=%d nt=%d" % (n, vmax, nt), "compress_duplicates", I, b[0], b[1], b[2], b[3], b[4], I(n), I(nt))
            pairs = sorted(set(zip(i.tolist(), j.tolist())))
            got = list(zip(b[0].read()[:r].tolist(), b[1].read()[:r].tolist()))
            if r != len(pairs) or sorted(got) != pairs:
                print("WRONG compress_duplicates n=%d vmax=%d" % (n, vmax), flush=True)
            for x in b:
                x.free()
    # ---- localmaxlabel (driver)
    for nth in (1, 4):
        LIB.cimaged11_omp_set_num_threads(I(nth))
        for ns, nf in [(3, 3), (3, 4), (4, 3), (5, 7), (16, 16), (2, 2), (2, 5), (5, 2)] + ([(64, 48)] if big else []):
            im = rng.permutation(ns * nf).astype(np.float32).reshape(ns, nf)
            b = [Buf(im, np.float32), Buf(np.full((ns, nf), -7), np.int32), Buf(np.full((ns, nf), 77), np.uint8)]
            call("localmaxlabel shape=%dx%d threads=%d" % (ns, nf, nth), "localmaxlabel", I, b[0], b[1], b[2], I(ns), I(nf))
            for x in b:
                x.free()
    LIB.cimaged11_omp_set_num_threads(I(1))
    # ---- reorder_u16_a32_a16: addresses are a0[row] + running sum of a1[row, :]
    for ns, nf in [(1, 1), (1, 6), (4, 1), (3, 5)] + ([(32, 32)] if big else []):
        perm = rng.permutation(ns * nf).reshape(ns, nf)         # a permutation written row by row as start + deltas
        a0 = np.zeros(ns, np.uint32); a1 = np.zeros((ns, nf), np.int16)
        for r_ in range(ns):
            a0[r_] = 0
            prev = 0
            for c_ in range(nf):
                a1[r_, c_] = perm[r_, c_] - prev
                prev = perm[r_, c_]
        data = rng.randint(0, 65535, (ns, nf))
        b = [Buf(data, np.uint16), Buf(a0, np.uint32), Buf(a1, np.int16), Buf(np.zeros((ns, nf)), np.uint16)]
        call("reorder_u16_a32_a16 shape=%dx%d" % (ns, nf), "reorder_u16_a32_a16", None, b[0], b[1], b[2], b[3], I(ns), I(nf))
        out = b[3].read().ravel()
        if not np.array_equal(out[perm.ravel()], data.ravel().astype(np.uint16)):
            print("WRONG reorder_u16_a32_a16 shape=%dx%d" % (ns, nf), flush=True)
        for x in b:
            x.free()
    # ---- bloboverlaps on label images made by the real connectedpixels / blobproperties
    NPROP = int(sys.argv[4])
    for ns, nf in [(2, 2), (2, 5), (6, 6), (9, 4)] + ([(40, 40)] if big else []):
        for rep in range(3):
            labs, ress, ns_ = [], [], []
            base = rng.rand(ns, nf)
            for fr in range(2):
                d = (base + 0.3 * rng.rand(ns, nf)).astype(np.float32)
                bd = Buf(d, np.float32); bl = Buf(np.zeros((ns, nf)), np.int32)
                n = call("connectedpixels for bloboverlaps %dx%d" % (ns, nf), "connectedpixels", I, bd, bl, ctypes.c_float(0.6), I(0), I(1), I(ns), I(nf))
                br = Buf(np.zeros((max(n, 1), NPROP)), np.float64)
                call("blobproperties for bloboverlaps", "blobproperties", None, bd, bl, I(n), ctypes.c_float(float(fr)), I(0), I(ns), I(nf), br)
                labs.append(bl); ress.append(br); ns_.append(n); bd.free()
            call("bloboverlaps shape=%dx%d n1=%d n2=%d" % (ns, nf, ns_[0], ns_[1]), "bloboverlaps", I,
                 labs[0], I(ns_[0]), ress[0], labs[1], I(ns_[1]), ress[1], I(0), I(ns), I(nf))
            for x in labs + ress:
                x.free()


if __name__ == "__main__":
    LIB = ctypes.CDLL(sys.argv[1])
    suite(int(sys.argv[2]), sys.argv[3])
    print("SUITE-DONE %d" % NCALL, flush=True)
