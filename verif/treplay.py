"""Replay of refuted / undischarged obligations of traced python units on the real functions.

The obligation's goal is a formula over the *input symbols* only.  A counter-model (or, when the solver gives none, seeded
random values satisfying the unit's preconditions) is turned into concrete float arguments, the real function is executed
by plain CPython/numpy (no shims), the reference term is evaluated numerically (elementary functions by libm), and the
two are compared with a relative tolerance of 1e-6."""
import math
import random
import numpy as np
import z3
from . import symtrace as ST


class NoValue(Exception):
    pass


def num_eval(t, env):
    """numeric value (float / bool) of a z3 term under env: {symbol name: float}"""
    cache = {}

    def ev(x):
        k = x.get_id()
        if k in cache:
            return cache[k]
        r = _ev(x)
        cache[k] = r
        return r

    def _ev(x):
        if z3.is_int_value(x):
            return float(x.as_long())
        if z3.is_rational_value(x):
            return x.numerator_as_long() / x.denominator_as_long()
        if z3.is_true(x):
            return True
        if z3.is_false(x):
            return False
        if not z3.is_app(x):
            raise NoValue("quantifier / var")
        d = x.decl()
        kind = d.kind()
        name = d.name()
        ch = x.children()
        if kind == z3.Z3_OP_UNINTERPRETED:
            if not ch:
                if name not in env:
                    raise NoValue(name)
                return env[name]
            a = [ev(c) for c in ch]
            if name == "sin":
                return math.sin(a[0])
            if name == "cos":
                return math.cos(a[0])
            if name == "atan2":
                return math.atan2(a[0], a[1])
            if name == "sqrt":
                return math.sqrt(a[0]) if a[0] >= 0 else float("nan")
            if name == "asin":
                return math.asin(max(-1.0, min(1.0, a[0])))
            if name == "acos":
                return math.acos(max(-1.0, min(1.0, a[0])))
            if name == "log":
                return math.log(a[0])
            if name == "exp":
                return math.exp(a[0])
            if name == "val$":
                return a[0]
            raise NoValue("uninterpreted " + name)
        a = [ev(c) for c in ch]
        if kind == z3.Z3_OP_ADD:
            return sum(a)
        if kind == z3.Z3_OP_SUB:
            return a[0] - sum(a[1:])
        if kind == z3.Z3_OP_UMINUS:
            return -a[0]
        if kind == z3.Z3_OP_MUL:
            r = 1.0
            for v in a:
                r *= v
            return r
        if kind == z3.Z3_OP_DIV:
            return a[0] / a[1] if a[1] != 0 else float("nan")
        if kind == z3.Z3_OP_IDIV:
            return float(math.floor(a[0] / a[1])) if a[1] > 0 else float(math.ceil(a[0] / a[1]))
        if kind == z3.Z3_OP_MOD:
            return float(a[0] - abs(a[1]) * math.floor(a[0] / abs(a[1])))
        if kind == z3.Z3_OP_TO_REAL:
            return a[0]
        if kind == z3.Z3_OP_TO_INT:
            return float(math.floor(a[0]))
        if kind == z3.Z3_OP_ITE:
            return a[1] if a[0] else a[2]
        if kind == z3.Z3_OP_AND:
            return all(a)
        if kind == z3.Z3_OP_OR:
            return any(a)
        if kind == z3.Z3_OP_NOT:
            return not a[0]
        if kind == z3.Z3_OP_IMPLIES:
            return (not a[0]) or a[1]
        if kind == z3.Z3_OP_EQ:
            if isinstance(a[0], bool) or isinstance(a[1], bool):
                return bool(a[0]) == bool(a[1])
            return abs(a[0] - a[1]) <= 1e-6 * max(1.0, abs(a[0]), abs(a[1]))
        if kind == z3.Z3_OP_DISTINCT:
            return len(set(a)) == len(a)
        if kind == z3.Z3_OP_LE:
            return a[0] <= a[1]
        if kind == z3.Z3_OP_LT:
            return a[0] < a[1]
        if kind == z3.Z3_OP_GE:
            return a[0] >= a[1]
        if kind == z3.Z3_OP_GT:
            return a[0] > a[1]
        if kind == z3.Z3_OP_POWER:
            return a[0] ** a[1]
        raise NoValue("operator %s" % name)
    return ev(t)


def symbols_of(terms):
    out, seen, st = {}, set(), list(terms)
    while st:
        x = st.pop()
        if x.get_id() in seen:
            continue
        seen.add(x.get_id())
        if z3.is_quantifier(x):
            st.append(x.body())
            continue
        if z3.is_app(x):
            if x.num_args() == 0 and x.decl().kind() == z3.Z3_OP_UNINTERPRETED:
                out[x.decl().name()] = x
            st.extend(x.children())
    return out


def concretise(obj, env):
    if isinstance(obj, ST.S):
        v = num_eval(obj.t, env)
        return int(round(v)) if obj.t.sort() == z3.IntSort() else float(v)
    if isinstance(obj, np.ndarray):
        if obj.dtype == object:
            flat = [concretise(x, env) for x in obj.ravel()]
            isint = all(isinstance(x, int) for x in flat) and len(flat) > 0
            return np.array(flat, dtype=(int if isint else float)).reshape(obj.shape)
        return obj
    if isinstance(obj, (list, tuple)):
        return type(obj)(concretise(x, env) for x in obj)
    if isinstance(obj, dict):
        return {k: concretise(v, env) for k, v in obj.items()}
    return obj


def flat_floats(x):
    out = []
    if isinstance(x, (list, tuple)):
        for y in x:
            out += flat_floats(y)
    elif isinstance(x, np.ndarray):
        out += [float(v) for v in x.ravel()]
    elif isinstance(x, (bool, np.bool_)):
        out.append(1.0 if x else 0.0)
    else:
        out.append(float(x))
    return out


def make_replayer(fn, make_args, requires, outputs=None):
    def replay(ur, ob, model, seed):
        info = getattr(ob, "trace_info", None)
        if info is None:
            return dict(confirmed=False, why="obligation carries no trace information")
        j, want_term, pc = info
        args, kwargs = make_args()
        syms = symbols_of([ST.term(x) for x in ST_flat(args) + ST_flat(list(kwargs.values())) if isinstance(x, ST.S)] + [want_term] + list(pc))
        rng = random.Random(seed)
        cands = []
        if model is not None:
            env = {}
            for nm, c in syms.items():
                v = model.eval(c, model_completion=True)
                try:
                    env[nm] = num_eval(v, {})
                except Exception:
                    env[nm] = 0.0
            cands.append(("solver-model", env))
        for i in range(150):
            env = {}
            for nm, c in syms.items():
                env[nm] = float(rng.randint(-3, 6)) if c.sort() == z3.IntSort() else rng.choice([rng.uniform(-3, 3), rng.uniform(0.5, 12), rng.uniform(60, 120)])
            cands.append(("seeded-random#%d" % i, env))
        tried = 0
        for label, env in cands:
            try:
                if not all(num_eval(r, env) for r in list(requires) + list(pc)):
                    continue
                cargs, ckw = concretise(args, env), concretise(kwargs, env)
                res = fn(*cargs, **ckw)
                got = flat_floats(outputs(res, cargs, ckw) if outputs else res)
                want = num_eval(want_term, env)
                want = (1.0 if want else 0.0) if isinstance(want, bool) else want
            except (NoValue, ZeroDivisionError, ValueError, FloatingPointError, OverflowError, IndexError, AssertionError):
                continue
            except Exception as e:
                return dict(confirmed=False, why="real function raised %s: %s" % (type(e).__name__, e))
            tried += 1
            if j < len(got) and (math.isnan(want) or math.isnan(got[j]) or math.isinf(want) or math.isinf(got[j])):
                continue        # outside the domain of the real-valued model
            if j < len(got) and abs(got[j] - want) > 1e-6 * max(1.0, abs(got[j]), abs(want)):
                return dict(confirmed=True, source=label, inputs={k: v for k, v in env.items()}, component=j,
                            observed=got[j], expected=want)
        return dict(confirmed=False, why="no failing input among solver model and seeded random inputs (%d evaluated)" % tried)
    return replay


def ST_flat(x):
    out = []
    if isinstance(x, (list, tuple)):
        for y in x:
            out += ST_flat(y)
    elif isinstance(x, dict):
        for y in x.values():
            out += ST_flat(y)
    elif isinstance(x, np.ndarray):
        out += list(x.ravel())
    else:
        out.append(x)
    return out
