"""Verdicts, known findings, replay files and evidence for one property check."""
import json
import os
import time
import collections
from . import solve

VERIF = os.path.dirname(os.path.dirname(os.path.abspath(__file__)))

GENERAL_ASSUMPTIONS = [
    "float/double arithmetic is verified as real arithmetic (rounding error, NaN and Inf are outside the model)",
    "C integers are mathematical integers; every signed operation carries a representability obligation",
    "distinct pointer parameters address distinct, non-overlapping buffers (f2py passes separate numpy buffers)",
    "libm/numpy elementary functions are the mathematical functions",
    "malloc/calloc/realloc succeed or their failure is tested by the code",
    "soundness of the home-made VC generators (verif/csym*.py, verif/pysym.py, verif/symtrace.py) and of z3/cvc5",
]


class Ctx:
    def __init__(self, prop, tier, seed, verbose=False):
        self.prop, self.tier, self.seed, self.verbose = prop, tier, seed, verbose
        self.partial = False
        self.repo = os.environ.get("REPO", "/repo")


def load_known():
    p = os.path.join(VERIF, "known_findings.json")
    if not os.path.exists(p):
        return []
    return json.load(open(p))["findings"]


def match_known(known, prop, unit, obname):
    for k in known:
        if k.get("status") != "open" or k["property"] != prop:
            continue
        if k.get("unit") and k["unit"] not in unit:
            continue
        if k["match"] in obname:
            return k
    return None


def run_property(ctx, mod, units, t0):
    prop = ctx.prop
    results = []
    for u in units:
        r = u.generate(ctx)
        results.append(r)
        if ctx.verbose:
            print("  generated %-60s %4d obligations %.1fs %s" % (r.name, len(r.obs), r.gen_s, (r.error or "")[:100]))
    allobs = [o for r in results for o in r.obs]
    wall = getattr(mod, "WALL_MS", None)
    if ctx.tier == "thorough" and wall:
        wall = wall * 3
    res = solve.solve_all(allobs, wall_ms=wall) if allobs else []
    # retry unknowns once with a larger budget (keeps verdicts stable under load) - but first look for a failing input on the real code:
    # an obligation with a replayed witness is a violation whatever a longer solver run would say
    unk = [i for i, x in enumerate(res) if x["result"] == "unknown"]
    replay_cache = {}
    if unk and len(unk) <= 40:
        from . import replay as _replay
        owner = {}
        k = 0
        for r in results:
            for o in r.obs:
                owner[k] = r
                k += 1
        cand = [i for i in unk if owner[i].kind == "c" or getattr(owner[i], "replayer", None)]
        early = solve.pool_map(lambda j: list(_replay.write(ctx, dict(unit=owner[cand[j]].name, obligation=res[cand[j]]["name"], result="unknown",
                                                                      reason=res[cand[j]].get("reason", ""), ob=allobs[cand[j]],
                                                                      unitres=owner[cand[j]], line=res[cand[j]].get("line")))),
                               len(cand), 600) if cand else []
        for j, i in enumerate(cand):
            if isinstance(early[j], list) and early[j][1]:
                replay_cache[res[i]["name"]] = tuple(early[j])
        unk = [i for i in unk if res[i]["name"] not in replay_cache]
    if unk and len(unk) <= 40:
        for seed in (0, 7):
            again = solve.solve_all([allobs[i] for i in unk], wall_ms=(wall or solve.WALL_MS) * 3, rlimit=solve.RLIMIT * 4, seed=seed)
            for i, x in zip(unk, again):
                if x["result"] != "unknown":
                    x["backend"] += "+retry" + ("(seed %d)" % seed if seed else "")
                    res[i] = x
            unk = [i for i in unk if res[i]["result"] == "unknown"]
            if not unk:
                break
        solve.SEED = 0
    i = 0
    for r in results:
        r.results = res[i:i + len(r.obs)]
        i += len(r.obs)
    known = load_known()
    violations, undecided, internal, knownhits = [], [], [], []
    # vacuity guard: the hypotheses of the last obligation of every unit (the one with most accumulated facts) must be satisfiable
    vac_obs, vac_units = [], []
    for r in results:
        import copy
        import z3
        # obligations whose goal is `false` (exit / assert-fail unreachable) have contradictory hypotheses when they hold: not a vacuity signal
        cand = [o for o in r.obs if not getattr(o, "trivial", False) and not z3.is_false(o.goal)]
        if not cand and r.obs:
            o = copy.copy(max(r.obs, key=lambda o: o.nfacts))
            o.pc = z3.BoolVal(True)           # only the preconditions / invariants, without the (dead) path
            cand = [o]
        if cand:
            vac_obs.append(max(cand, key=lambda o: o.nfacts + len(o.extra_hyps)))
            vac_units.append(r.name)
    vac = solve.vacuity(vac_obs) if (vac_obs and not ctx.partial) or vac_obs else []
    vac_bad = [u for u, v in zip(vac_units, vac) if v == "unsat"]
    for u in vac_bad:
        internal.append((u, "vacuity: the hypotheses (preconditions / invariants / lemmas) of this unit are contradictory"))
    nob = ndis = 0
    by_backend = collections.Counter()
    solver_s = 0.0
    samples = []
    bounded = []
    for r in results:
        if r.error:
            (internal if r.error.startswith("internal") else undecided).append((r.name, r.error))
            continue
        if r.kind == "bounded":
            b = dict(r.bounded)
            b["unit"] = r.name
            fails = b.pop("failures", [])
            b["failed"] = len(fails)
            bounded.append(b)
            for f in fails:
                k = match_known(known, prop, r.name, f.get("name", ""))
                if k:
                    knownhits.append((k, r.name, f.get("name", "")))
                else:
                    violations.append(dict(unit=r.name, obligation=f.get("name", r.name), result="bounded-failure",
                                           witness=f, confirmed=True))
            continue
        if not r.obs:
            internal.append((r.name, "vacuity: unit produced no obligations"))
            continue
        for o, x in zip(r.obs, r.results):
            nob += 1
            solver_s += x["seconds"]
            if x["result"] == "unsat":
                ndis += 1
                by_backend[x["backend"]] += 1
                if len(samples) < 6 and x["backend"] != "z3-simplify":
                    samples.append(dict(name=x["name"], result="unsat", backend=x["backend"], ms=int(x["seconds"] * 1000)))
                continue
            k = match_known(known, prop, r.name, x["name"])
            if k:
                knownhits.append((k, r.name, x["name"]))
                nob -= 1
                continue
            violations.append(dict(unit=r.name, obligation=x["name"], result=x["result"], reason=x.get("reason", ""),
                                   ob=o, unitres=r, line=x.get("line")))
    code = 0
    lines = []
    os.makedirs(os.path.join(VERIF, "replays"), exist_ok=True)
    seen_known = set()
    for k, unit, obname in knownhits:
        key = (k["match"], k.get("unit"))
        if key in seen_known:
            continue
        seen_known.add(key)
        lines.append("KNOWN-FINDING: property=%s %s" % (prop, k["what"]))
    # open findings of this property that did not show in this run (schedule dependent ones, or units skipped with --only) are still listed
    if not ctx.partial:
        for k in known:
            if k.get("status") == "open" and k["property"] == prop and (k["match"], k.get("unit")) not in seen_known:
                seen_known.add((k["match"], k.get("unit")))
                lines.append("KNOWN-FINDING: property=%s %s (listed; did not show in this run)" % (prop, k["what"]))
    nviol = 0
    if internal:
        for name, err in internal:
            lines.append("CHECKER-ERROR unit=%s %s" % (name, err.splitlines()[0][:300]))
            if ctx.verbose:
                print(err)
        code = 3
    if violations:
        from . import replay
        reported = set()
        uniq = []
        for v in violations:
            if v["obligation"] in reported:
                continue            # the same clause failed on several inputs of a bounded unit: one line, first witness
            reported.add(v["obligation"])
            uniq.append(v)
        violations = uniq
        shown = violations[:12]
        # counter-models are replayed in parallel forked children (model search + sanitizer runs take tens of seconds each)
        done = solve.pool_map(lambda k: list(replay_cache[shown[k]["obligation"]]) if shown[k]["obligation"] in replay_cache
                              else list(replay.write(ctx, shown[k])), len(shown), 900)
        for k, v in enumerate(shown):
            if done[k] is None or isinstance(done[k], dict):
                path, confirmed = replay.write(ctx, dict(v, ob=None, unitres=None))
            else:
                path, confirmed = done[k]
            nviol += 1
            suffix = "" if confirmed else " no-failing-input-found"
            lines.append("VIOLATION property=%s replay=%s obligation=%s%s" % (prop, path, v["obligation"][:160], suffix))
        if len(violations) > 12:
            lines.append("... %d further failed obligations (see evidence)" % (len(violations) - 12))
            nviol = len(violations)
        code = 1
    elif undecided and code == 0:
        for name, err in undecided:
            lines.append("UNDECIDED unit=%s reason=%s" % (name, err[:300]))
        code = 2
    for ln in lines:
        print(ln)
    wall = time.time() - t0
    # evidence
    funcs = [r.name for r in results]
    trusted = list(getattr(mod, "TRUSTED", []))
    assumptions = list(getattr(mod, "ASSUMPTIONS", [])) + GENERAL_ASSUMPTIONS
    used = set()
    infos = {}
    for r in results:
        for a in r.info.get("assumptions", []) if r.info else []:
            used.add(a)
        if r.info:
            infos[r.name] = {k: v for k, v in r.info.items() if k in ("callees", "unrolled", "dropped_calls", "file_sha", "wellformed", "paths", "source_sha", "dropped")}
    for a in sorted(used):
        if a.startswith("iteration-counter:"):
            trusted.append("not checked: overflow of the step counter " + a[len("iteration-counter:"):])
    if "rne_magic" in used:
        trusted.append("lemma rne_magic: (x+6755399441055744.0)-6755399441055744.0 == round-half-even(x) for |x|<=2^51 in IEEE double "
                       "(proved bit-precisely by lemma:rne_magic in the C06 thorough tier)")
    if "omp-drf-meta" in used:
        trusted.append("meta-theorem: a data-race-free `omp parallel for` computes its sequential result for every schedule and thread count; OpenMP runtime")
    if "libm" in used:
        trusted.append("libm sqrt/sin/cos/atan2 are the real functions (sqrt(x)^2==x, sin^2+cos^2==1 instantiated per call)")
    level = getattr(mod, "LEVEL", "proof")
    cov = dict(obligations=nob, discharged=ndis, checker_cmd="./check %s --tier %s" % (prop, ctx.tier),
               trusted_base=trusted, by_backend=dict(by_backend), solver_seconds=round(solver_s, 2),
               functions_under_contract=funcs, samples=samples or [dict(note="no solver-discharged obligation in this run")],
               bounded=bounded, known_findings=[k["what"] for k, _, _ in knownhits][:20],
               undecided=[dict(unit=n, reason=e[:300]) for n, e in undecided],
               failed=[dict(unit=v["unit"], obligation=v["obligation"], result=v["result"]) for v in violations][:50],
               vacuity_checks=dict(units=len(vac), satisfiable=sum(1 for v in vac if v == "sat"), undetermined=sum(1 for v in vac if v == "unknown"),
                                   contradictory=len(vac_bad)),
               units=infos, explanation=getattr(mod, "EXPLANATION", ""),
               evaluations=max(1, nob + sum(b.get("evaluations", 0) for b in bounded)),
               distinct_nontrivial=max(2, sum(1 for x in res if x["backend"] != "z3-simplify" and x["result"] == "unsat")
                                       + sum(b.get("distinct_nontrivial", 0) for b in bounded)),
               rule=getattr(mod, "RULE", "one named obligation per array access, arithmetic operation, conversion, call precondition, "
                            "loop invariant (establish/preserve) and postcondition of every function under contract; non-trivial = not closed by the "
                            "simplifier alone, i.e. sent to an SMT solver; bounded stand-ins are counted separately under `bounded`"),
               exhaustive=False)
    ev = dict(property_id=prop, tier=ctx.tier, seed=ctx.seed, level=level, coverage=cov, assumptions=assumptions,
              wall_s=round(wall, 2), violations=nviol)
    if not ctx.partial:
        os.makedirs(os.path.join(VERIF, "evidence"), exist_ok=True)
        with open(os.path.join(VERIF, "evidence", "%s.json" % prop), "w") as f:
            json.dump(ev, f, indent=1, default=str)
    print("%s tier=%s: %d obligations, %d discharged, %d bounded stand-ins, %d known findings, exit %d, %.1fs"
          % (prop, ctx.tier, nob, ndis, len(bounded), len(seen_known), code, wall))
    return code
