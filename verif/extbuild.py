"""The python glue of ImageD11 calls the compiled extension that lives in the tree (an untracked in-place build product).
Bounded stand-ins that go through that glue first make sure the extension is at least as new as src/*.c and src/*.pyf,
rebuilding it in place (the repository's own `setup.py build_ext --inplace`) otherwise."""
import fcntl
import glob
import os
import subprocess


def ensure_current():
    repo = os.environ.get("REPO", "/repo")
    srcs = glob.glob(os.path.join(repo, "src", "*.c")) + glob.glob(os.path.join(repo, "src", "*.h")) + glob.glob(os.path.join(repo, "src", "*.pyf"))
    so = glob.glob(os.path.join(repo, "ImageD11", "_cImageD11*.so"))
    newest = max(os.path.getmtime(p) for p in srcs)
    if so and min(os.path.getmtime(p) for p in so) >= newest:
        return "current"
    lock = os.path.join(os.path.dirname(os.path.dirname(os.path.abspath(__file__))), "build", "ext.lock")
    os.makedirs(os.path.dirname(lock), exist_ok=True)
    with open(lock, "w") as lf:
        fcntl.flock(lf, fcntl.LOCK_EX)
        so = glob.glob(os.path.join(repo, "ImageD11", "_cImageD11*.so"))
        if so and min(os.path.getmtime(p) for p in so) >= newest:
            return "current"
        p = subprocess.run(["/venv/bin/python", "setup.py", "build_ext", "--inplace"], cwd=repo, capture_output=True, text=True)
        if p.returncode != 0:
            raise RuntimeError("rebuilding the in-tree extension failed: " + p.stderr[-800:])
    return "rebuilt"
