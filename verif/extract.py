"""Mechanical extraction of a python function whose compiled wrapper keeps no reference to the python text
(numba.guvectorize): the FunctionDef is cut out of the real module source on every run, its decorators are dropped
(what is dropped: the numba decorator, i.e. compilation and broadcasting over leading dimensions - the body is then
the per-element kernel), and it is compiled in a copy of the module's namespace."""
import ast
import inspect
import hashlib


def extract(module, name):
    src = inspect.getsource(module)
    tree = ast.parse(src)
    for node in tree.body:
        if isinstance(node, ast.FunctionDef) and node.name == name:
            seg = ast.get_source_segment(src, node)
            node.decorator_list = []
            mod = ast.Module(body=[node], type_ignores=[])
            ast.fix_missing_locations(mod)
            ns = module.__dict__        # executed in the module's own namespace so that shims of np apply
            tmp = {}
            exec(compile(mod, module.__file__, "exec"), ns, tmp)
            fn = tmp[name]
            fn.__source_sha__ = hashlib.sha256(seg.encode()).hexdigest()[:16]
            return fn
    raise KeyError("function %s not found in %s" % (name, module.__file__))
