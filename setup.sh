#!/bin/sh
# offline setup: solver + helper wheels for the repository's own interpreter (/venv, python 3.12)
DIR="$(cd "$(dirname "$0")" && pwd)"
cd "$DIR" || exit 1
mkdir -p build
if [ ! -d .pydeps/z3 ]; then
  PIP_NO_INDEX=1 /venv/bin/python -m pip install --quiet --no-index --find-links /opt/veriftools/wheels \
      --target "$DIR/.pydeps" z3-solver sympy mpmath jsonschema icontract deal || exit 1
fi
# the in-tree compiled extension is an untracked build product; rebuild it only if it is missing
if ! ls /repo/ImageD11/_cImageD11*.so >/dev/null 2>&1; then
  (cd /repo && /venv/bin/python setup.py build_ext --inplace >/dev/null 2>&1) || exit 1
fi
PYTHONPATH="$DIR/.pydeps" /venv/bin/python -c "import z3, sympy; print('setup ok', z3.get_version_string())"
