/* stub omp.h for clang -fsyntax-only parsing (verification only) */
#ifndef VERIF_OMP_STUB_H
#define VERIF_OMP_STUB_H
int omp_get_thread_num(void);
int omp_get_num_threads(void);
int omp_get_max_threads(void);
void omp_set_num_threads(int);
int omp_get_num_procs(void);
#endif
