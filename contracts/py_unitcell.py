"""C03: reflection lists (centring rules, d-spacing, gethkls, makerings) of ImageD11.unitcell."""
import itertools
import math
import numpy as np
import z3
from verif import smt, symtrace as ST
from verif.units import GenUnit, BoundedUnit, make_ob
from verif.tunits import repo_module, trace_obligations

_T = ST.term


def spec_absent(name, h, k, l):
    """systematic absences of the lattice centrings (International Tables): True = reflection absent"""
    odd = lambda x: smt.pymod(x, 2) != 0
    return {"P": z3.BoolVal(False), "A": odd(k + l), "B": odd(h + l), "C": odd(h + k), "I": odd(h + k + l),
            "F": z3.Or(odd(h + k), odd(h + l), odd(k + l)),
            "R": smt.pymod(-h + k + l, 3) != 0}[name]


def gen_centring(ctx):
    uc = repo_module("ImageD11.unitcell")
    obs, infos = [], {}
    for name in ("P", "A", "B", "C", "I", "F", "R"):
        fn = uc.outif[name]
        def args():
            return (ST.sym("h", "int"), ST.sym("k", "int"), ST.sym("l", "int")), {}
        def run(h, k, l, fn=fn):
            r = fn(h, k, l)
            if isinstance(r, ST.SB):
                return ST.S(z3.If(r.b, z3.IntVal(1), z3.IntVal(0)))
            return ST.S(z3.IntVal(1 if r else 0))
        def spec(a, kw, pc, name=name):
            return [z3.If(spec_absent(name, ST._t(a[0]), ST._t(a[1]), ST._t(a[2])), z3.IntVal(1), z3.IntVal(0))]
        o, info = trace_obligations("py:unitcell.outif[%s]" % name, run, [uc], args, spec, prop="C03")
        obs += o
        infos = info
    return obs, infos


def gen_ds(ctx):
    """ds(hkl)^2 == hkl . gi . hkl, and gi is the inverse of the metric tensor g (g.gi = I)"""
    uc = repo_module("ImageD11.unitcell")
    from .py_cell import _cell, spec_metric, NP
    def args():
        return (_cell(), [ST.sym("h", "int"), ST.sym("k", "int"), ST.sym("l", "int")]), {}
    def run(cell, hkl):
        u = uc.unitcell(cell, "P")
        d = u.ds(hkl)
        return [d * d]
    def spec(a, kw, pc):
        cell, hkl = a
        g = spec_metric(cell)
        gi = NP.linalg.inv(g)
        h = ST.lift(hkl)
        d2 = np.dot(h, np.dot(gi, h))
        return [d2.sqrt() * d2.sqrt()]
    return trace_obligations("py:unitcell.ds", run, [uc], args, spec, prop="C03", extra={"inv": NP.linalg.inv},
                             requires=[_T(NP.linalg.det(spec_metric(_cell()))) != 0])


CELLS = [([4.0, 4.0, 4.0, 90, 90, 90], "P"), ([4.0, 4.0, 4.0, 90, 90, 90], "F"), ([4.0, 4.0, 4.0, 90, 90, 90], "I"),
         ([4.0, 5.0, 6.0, 90, 90, 90], "A"), ([4.0, 5.0, 6.0, 90, 90, 90], "B"), ([4.0, 5.0, 6.0, 90, 90, 90], "C"),
         ([3.0, 3.0, 5.0, 90, 90, 120], "P"), ([4.8, 4.8, 13.0, 90, 90, 120], "R"), ([5.1, 6.2, 7.3, 90, 100, 90], "P"),
         ([5.1, 6.2, 7.3, 90, 100, 90], "C"), ([5.0, 5.0, 5.0, 80, 80, 80], "P"), ([3.1, 4.2, 7.3, 62, 71, 118], "P"),
         ([30.0, 2.0, 30.0, 90, 90, 90], "P"), ([3.0, 4.0, 5.0, 75, 85, 95], "I"), ([4.0, 4.0, 4.01, 90, 90, 90], "P")]


def brute(uc, cell, sym, dsmax):
    u = uc.unitcell(cell, sym)
    a, b, c = cell[:3]
    hm, km, lm = [int(math.floor(dsmax * x)) + 1 for x in (a, b, c)]
    gi = u.gi
    out = {}
    absent = {"P": lambda h, k, l: False, "A": lambda h, k, l: (k + l) % 2 != 0, "B": lambda h, k, l: (h + l) % 2 != 0,
              "C": lambda h, k, l: (h + k) % 2 != 0, "I": lambda h, k, l: (h + k + l) % 2 != 0,
              "F": lambda h, k, l: (h + k) % 2 != 0 or (h + l) % 2 != 0 or (k + l) % 2 != 0,
              "R": lambda h, k, l: (-h + k + l) % 3 != 0}[sym]
    for h in range(-hm, hm + 1):
        for k in range(-km, km + 1):
            for l in range(-lm, lm + 1):
                if (h, k, l) == (0, 0, 0) or absent(h, k, l):
                    continue
                v = np.array([h, k, l], float)
                ds = math.sqrt(v.dot(gi).dot(v))
                if ds < dsmax:
                    out[(h, k, l)] = ds
    return out


def b_gethkls(ctx):
    """bounded: gethkls / makerings against brute-force enumeration of the reciprocal lattice on a grid of cells x limits"""
    uc = repo_module("ImageD11.unitcell")
    fails, ev, nontrivial, samples = [], 0, 0, []
    limits = [0.3, 0.5, 0.7, 0.9] if ctx.tier == "quick" else [0.2, 0.3, 0.4, 0.5, 0.6, 0.7, 0.8, 0.9, 1.1]
    for cell, sym in CELLS:
        for dsmax in limits:
            if max(cell[:3]) * dsmax > 18:
                continue
            want = brute(uc, cell, sym, dsmax)
            u = uc.unitcell(cell, sym)
            got = u.gethkls(dsmax)
            ev += 1
            nontrivial += 1 if cell[3:] != [90, 90, 90] else 0
            gl = [tuple(p[1]) for p in got]
            tag = "%s %s dsmax=%s" % (cell, sym, dsmax)
            if len(set(gl)) != len(gl):
                fails.append(dict(name="gethkls lists a reflection twice", case=tag))
            extra = sorted(set(gl) - set(want))
            missing = sorted(set(want) - set(gl))
            if extra:
                fails.append(dict(name="gethkls lists a reflection that is absent, beyond the limit or (000)", case=tag, hkl=list(extra[:5])))
            if missing:
                fails.append(dict(name="gethkls incomplete", case=tag, missing=len(missing), of=len(want), hkl=list(missing[:5])))
            for ds, hkl in got:
                if abs(ds - want.get(tuple(hkl), ds)) > 1e-9:
                    fails.append(dict(name="listed d* is not |B.hkl|", case=tag, hkl=list(hkl)))
                    break
            # rings: several tolerances, also one after the other on the same object (the tolerance of this call is the one that counts)
            if not want:
                continue
            u2 = uc.unitcell(cell, sym)
            for tol in (0.001, 0.0001, 0.004):
              u2.makerings(dsmax, tol)
              rd = u2.ringds
              allh = [tuple(h) for d in rd for h in u2.ringhkls[d]]
              if any(rd[i] >= rd[i + 1] for i in range(len(rd) - 1)):
                  fails.append(dict(name="ring d* not ascending", case=tag, tol=tol))
              if sorted(allh) != sorted(tuple(p[1]) for p in u2.peaks):
                  fails.append(dict(name="rings do not partition the reflection list", case=tag, tol=tol))
              for k, d in enumerate(rd):
                  dss = sorted(u2.ds(h) for h in u2.ringhkls[d])
                  if any(x - d >= tol for x in dss):
                      fails.append(dict(name="a ring member is tol or more away from the ring's first member", case=tag, tol=tol))
                      break
                  if k + 1 < len(rd) and rd[k + 1] - d < tol:
                      fails.append(dict(name="a new ring starts closer than tol to the start of the previous ring", case=tag, tol=tol))
                      break
            tol = 0.001
            u2.makerings(dsmax, tol)
            rd = u2.ringds
            allh = [tuple(h) for d in rd for h in u2.ringhkls[d]]
            if any(rd[i] >= rd[i + 1] for i in range(len(rd) - 1)):
                fails.append(dict(name="ring d* not ascending", case=tag))
            if sorted(allh) != sorted(tuple(p[1]) for p in u2.peaks):
                fails.append(dict(name="rings do not partition the reflection list", case=tag))
            for d in rd:
                dss = sorted(u2.ds(h) for h in u2.ringhkls[d])
                if any(dss[i + 1] - dss[i] >= tol for i in range(len(dss) - 1)):
                    fails.append(dict(name="neighbours in a ring differ by >= tol", case=tag))
            if len(samples) < 3:
                samples.append(dict(cell=cell, sym=sym, dsmax=dsmax, n=len(want)))
            if len(fails) > 8:
                break
    return dict(evaluations=ev, distinct_nontrivial=max(2, nontrivial), samples=samples, failures=fails[:10],
                rule="15 cells (all centrings, a pseudo-cubic one with near-coincident rings, orthogonal and oblique axes, one very anisotropic) x d* limits; non-trivial = oblique cell")


def gen_rings_symbolic(ctx):
    """makerings on a list of 5 peaks with *symbolic* ascending d* values (every pattern of 'within tol of the ring start'):
    ring d* strictly ascending, every peak in exactly one ring, members within tol of the first member"""
    uc = repo_module("ImageD11.unitcell")
    n = 5
    ds = [z3.Real("ds%d" % i) for i in range(n)]
    tol = z3.Real("tol")
    req = [tol > 0] + [ds[i] <= ds[i + 1] for i in range(n - 1)] + [ds[0] > 0]
    tr = ST.Tracer(max_paths=64)
    tr.assume = req

    import copy
    template = uc.unitcell([4.0, 4.0, 4.0, 90.0, 90.0, 90.0], "P")      # built before the module is shimmed

    def run():
        # a real unitcell object (every attribute the method may consult has its constructor value), only its peak list is symbolic
        f = copy.copy(template)
        f.gethkls = lambda lim: [[ST.S(ds[i]), (i, 0, 0)] for i in range(n)]
        f.makerings(1.0, ST.S(tol))
        return f
    with ST.shimmed(uc, extra={"abs": abs}):
        paths = tr.run(lambda: run(), lambda: ((), {}))
    obs = []
    for pi, (pc, f, a, kw) in enumerate(paths):
        hyps = req + list(pc)
        rd = [_T(x) for x in f.ringds]
        members = [f.ringhkls[k] for k in f.ringds]     # keyed by the S objects appended to ringds
        flat = [h for m in members for h in m]
        goal1 = z3.BoolVal(sorted(flat) == [(i, 0, 0) for i in range(n)])
        obs.append(make_ob("py:unitcell.makerings.path%d.partition" % pi, hyps, goal1, kind="trace", fn="py:unitcell.makerings", prop="C03"))
        if len(rd) > 1:
            obs.append(make_ob("py:unitcell.makerings.path%d.ascending" % pi, hyps, z3.And(*[rd[i] < rd[i + 1] for i in range(len(rd) - 1)]),
                               kind="trace", fn="py:unitcell.makerings", prop="C03"))
        within = []
        for r, m in zip(rd, members):
            for (i, _, _) in m:
                within.append(z3.And(ds[i] - r < tol, r - ds[i] < tol))
        obs.append(make_ob("py:unitcell.makerings.path%d.within_tol" % pi, hyps, z3.And(*within), kind="trace", fn="py:unitcell.makerings", prop="C03"))
    return obs, dict(paths=len(paths))


def units():
    return [GenUnit("py:unitcell.outif", gen_centring, "trace"), GenUnit("py:unitcell.ds", gen_ds, "trace"),
            GenUnit("py:unitcell.makerings[n=5,symbolic]", gen_rings_symbolic, "trace"),
            BoundedUnit("gethkls-vs-enumeration", b_gethkls, "14 cells x 4 (thorough 9) d* limits")]
