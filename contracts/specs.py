"""Mathematical spec functions shared by the C, numba and numpy contracts.
Written from the property statements (properties.jsonl), not from the code."""
import z3
from verif import smt, contract as K


def hkl_def(ubi, gv, k, r):
    """component r of UBI . g_k  (ubi: 3x3 view, gv: (n,3) view)"""
    return ubi[r][0] * gv[k][0] + ubi[r][1] * gv[k][1] + ubi[r][2] * gv[k][2]


hkl = K.opaque('hkl', hkl_def)


def dspec_def(ubi, gv, k):
    """squared Euclidean distance (hkl units) of UBI.g_k from the nearest integer hkl"""
    t = 0
    for r in range(3):
        h = hkl(ubi, gv, k, r)
        d = h - K.rne(h)
        t = t + d * d
    return t


dspec = K.opaque('drlv2', dspec_def)


def ihkl(ubi, gv, k, r):
    return K.rne(hkl(ubi, gv, k, r))



def det3(M):
    return (M[0][0] * (M[2][2] * M[1][1] - M[2][1] * M[1][2])
            - M[1][0] * (M[2][2] * M[0][1] - M[2][1] * M[0][2])
            + M[2][0] * (M[1][2] * M[0][1] - M[1][1] * M[0][2]))


def adj3(M, i, j):
    """entry (i,j) of the adjugate (transposed cofactor matrix) of a 3x3 M: M.adj(M) = det(M).I"""
    r = [x for x in range(3) if x != j]     # rows of M kept  (minor of M[j][i])
    c = [x for x in range(3) if x != i]
    minor = M[r[0]][c[0]] * M[r[1]][c[1]] - M[r[0]][c[1]] * M[r[1]][c[0]]
    return minor if (i + j) % 2 == 0 else -minor


class Mat:
    """3x3 matrix of terms, indexable M[i][j]"""
    def __init__(self, rows):
        self.rows = rows

    def __getitem__(self, i):
        return self.rows[i]


def inv3(M):
    d = det3(M)
    return Mat([[K.block(K.rdiv(adj3(M, i, j), d)) for j in range(3)] for i in range(3)])


def matmul3(A, B):
    return Mat([[K.block(sum(A[i][l] * B[l][j] for l in range(3))) for j in range(3)] for i in range(3)])


K.register_spec(hkl=hkl, dspec=dspec, ihkl=ihkl, det3=det3, adj3=adj3, inv3=inv3, matmul3=matmul3, Mat=Mat)


def count_lemmas():
    """induction base and steps of the facts that verif.contract instantiates for every count term (`count`, `countp`):
    with c(n) = 0 for n <= lo and c(n+1) = c(n) + [P(n)] for n >= lo:   0 <= c(n) <= n - lo   and   n <= m -> 0 <= c(m) - c(n) <= m - n."""
    import z3
    c = z3.Function("c!lemma", z3.IntSort(), z3.IntSort())
    P = z3.Function("P!lemma", z3.IntSort(), z3.BoolSort())
    n, m, lo = z3.Ints("n!l m!l lo!l")
    step = lambda x: c(x + 1) == c(x) + z3.If(P(x), 1, 0)
    return [("range.base", [c(lo) == 0], z3.And(c(lo) >= 0, c(lo) <= lo - lo)),
            ("range.step", [n >= lo, c(n) >= 0, c(n) <= n - lo, step(n)], z3.And(c(n + 1) >= 0, c(n + 1) <= n + 1 - lo)),
            ("monotone.base", [], z3.And(c(n) - c(n) >= 0, c(n) - c(n) <= n - n)),
            ("monotone.step", [n <= m, m >= lo, c(m) - c(n) >= 0, c(m) - c(n) <= m - n, step(m)],
             z3.And(c(m + 1) - c(n) >= 0, c(m + 1) - c(n) <= m + 1 - n)),
            ("below_lo", [n <= lo, z3.ForAll([m], z3.Implies(m <= lo, c(m) == 0))], c(n) == 0)]
