"""C17: columnfile under operation sequences - run-time contracts (class invariant + per-operation postconditions against a shadow
model) checked after every step of every operation sequence up to a stated depth (bounded stand-in, never counted as proved)."""
import itertools
import os
import tempfile
import numpy as np
from verif.units import BoundedUnit
from verif.tunits import repo_module

OPS = ["addcolumn_new", "addcolumn_existing", "setcolumn", "setitem_existing", "setitem_new", "setattr_scalar", "setattr_array",
       "filter", "removerows", "sortby", "reorder", "copy", "copyrows", "bigarray"]


def start_states(cfm, tmpdir):
    def s_new():
        c = cfm.newcolumnfile(["a", "b", "rid"])
        c.nrows = 5
        c.bigarray = np.array([[3., 1., 2., 5., 4.], [10., 11., 12., 13., 14.], [0., 1., 2., 3., 4.]])
        return c
    def s_file():
        fn = os.path.join(tmpdir, "start.flt")
        with open(fn, "w") as f:
            f.write("#  a  b  rid\n")
            for i, (x, y) in enumerate([(3, 10), (1, 11), (2, 12), (5, 13), (4, 14)]):
                f.write("%f %f %d\n" % (x, y, i))
        return cfm.columnfile(fn)
    def s_dict():
        return cfm.colfile_from_dict({"a": np.array([3., 1., 2., 5., 4.]), "b": np.arange(10., 15.), "rid": np.arange(5.)})
    def s_onerow():
        return cfm.colfile_from_dict({"a": np.array([7.]), "b": np.array([8.]), "rid": np.array([0.])})
    return [("new+bigarray", s_new), ("readfile", s_file), ("from_dict", s_dict), ("one_row", s_onerow)]


def apply(op, cf, model, k):
    """returns (cf, model) after the operation; model: dict title -> list of floats (the expected content)"""
    n = cf.nrows
    titles = list(model)
    if op == "addcolumn_new":
        name = "new%d" % k
        vals = np.arange(n, dtype=float) * 2 + k
        cf.addcolumn(vals, name)
        model[name] = list(vals)
    elif op == "addcolumn_existing":
        vals = np.arange(n, dtype=float) + 100 + k
        cf.addcolumn(vals, "b")
        model["b"] = list(vals)
    elif op == "setcolumn":
        vals = np.arange(n, dtype=float) + 200 + k
        cf.setcolumn(vals, "a")
        model["a"] = list(vals)
    elif op == "setitem_existing":
        vals = np.arange(n, dtype=float) + 300 + k
        cf["b"] = vals
        model["b"] = list(vals)
    elif op == "setitem_new":
        name = "item%d" % k
        vals = np.arange(n, dtype=float) + 400 + k
        cf[name] = vals
        model[name] = list(vals)
    elif op == "setattr_scalar":
        cf.a = 7.5 + k
        model["a"] = [7.5 + k] * n
    elif op == "setattr_array":
        vals = np.arange(n, dtype=float)[::-1].copy() + 500 + k
        cf.b = vals
        model["b"] = list(vals)
    elif op == "filter":
        mask = np.array([(i + k) % 3 != 0 for i in range(n)], bool)
        cf.filter(mask)
        for t in titles:
            model[t] = [v for v, m in zip(model[t], mask) if m]
    elif op == "removerows":
        if n:
            val = int(model["rid"][0])
            keep = [int(v) != val for v in model["rid"]]
            cf.removerows("rid", [val])
            for t in titles:
                model[t] = [v for v, m in zip(model[t], keep) if m]
    elif op == "sortby":
        order = np.argsort(np.array(model["a"]), kind="stable") if n else np.zeros(0, int)
        cf.sortby("a")
        srt = sorted(model["a"])
        # ties make the permutation ambiguous: only require that `a` is sorted and rows stay intact
        model["__sorted_a__"] = srt
        if len(set(model["a"])) == len(model["a"]):
            for t in titles:
                model[t] = [model[t][i] for i in order]
            model.pop("__sorted_a__")
    elif op == "reorder":
        perm = np.arange(n)[::-1].copy()
        cf.reorder(perm)
        for t in titles:
            model[t] = [model[t][i] for i in perm]
    elif op == "copy":
        c2 = cf.copy()
        check_no_sharing(cf, c2)
        cf = c2
    elif op == "copyrows":
        rows = list(range(0, n, 2))
        c2 = cf.copyrows(rows)
        check_no_sharing(cf, c2)
        for t in titles:
            model[t] = [model[t][i] for i in rows]
        cf = c2
    elif op == "bigarray":
        ba = cf.bigarray
        assert ba.shape == (len(cf.titles), cf.nrows), "bigarray shape %s" % (ba.shape,)
    return cf, model


class Broken(Exception):
    pass


def check_no_sharing(a, b):
    for t in a.titles:
        if a.nrows and np.shares_memory(a.getcolumn(t), b.getcolumn(t)):
            raise Broken("copy shares storage with its source (column %s)" % t)


def check_wf(cf, model):
    amb = model.get("__sorted_a__")
    titles = [t for t in model if not t.startswith("__")]
    if sorted(cf.titles) != sorted(titles):
        raise Broken("titles %s but expected %s" % (cf.titles, titles))
    n = len(model[titles[0]])
    if cf.nrows != n:
        raise Broken("nrows %s, expected %s" % (cf.nrows, n))
    for t in titles:
        views = [getattr(cf, t), cf[t], cf.getcolumn(t)]
        for v in views:
            if len(v) != n:
                raise Broken("column %s has %d entries, nrows %d" % (t, len(v), n))
        if amb is None:
            for v in views:
                if not np.array_equal(np.asarray(v, float), np.array(model[t], float)):
                    raise Broken("column %s holds %s, expected %s" % (t, np.asarray(v).tolist(), model[t]))
        elif t == "a":
            if list(np.asarray(views[0], float)) != amb:
                raise Broken("column a not sorted")
        # the three views are the same data: a write through the attribute view must be seen by the other two
        if n:
            old = float(views[0][0])
            try:
                getattr(cf, t)[0] = old + 12345.0
                seen = [float(cf[t][0]), float(cf.getcolumn(t)[0])]
            finally:
                getattr(cf, t)[0] = old
            if seen != [old + 12345.0] * 2:
                raise Broken("attribute view of column %s is detached from the item/getcolumn views" % t)
    if amb is not None:
        # rows intact: the multiset of rows is unchanged (rid identifies the row)
        rows_now = sorted(tuple(float(getattr(cf, t)[i]) for t in titles) for i in range(n))
        rows_exp = sorted(tuple(float(model[t][i]) for t in titles) for i in range(n))
        if rows_now != rows_exp:
            raise Broken("sort did not apply one permutation to every column")
        for t in titles:
            model[t] = [float(x) for x in getattr(cf, t)]
        model.pop("__sorted_a__")


def b_sequences(ctx):
    cfm = repo_module("ImageD11.columnfile")
    depth = 3 if ctx.tier == "quick" else 4
    fails, ev, samples = [], 0, []
    seen_fail = set()
    with tempfile.TemporaryDirectory(dir=os.path.join(os.path.dirname(os.path.dirname(os.path.abspath(__file__))), "build")) as tmp:
        for sname, mk in start_states(cfm, tmp):
            for d in range(1, depth + 1):
                for seq in itertools.product(OPS, repeat=d):
                    if any((sname,) + seq[:i] in seen_fail for i in range(1, len(seq))):
                        continue        # a prefix already failed: the shortest failing history is what is reported
                    cf = mk()
                    model = {t: [float(x) for x in cf.getcolumn(t)] for t in cf.titles}
                    ev += 1
                    try:
                        check_wf(cf, model)
                        for k, op in enumerate(seq):
                            cf, model = apply(op, cf, model, k)
                            check_wf(cf, model)
                    except Broken as e:
                        seen_fail.add((sname,) + seq[:k + 1])
                        if len(fails) < 12:
                            fails.append(dict(name="%s after %s" % (e, "->".join(seq[:k + 1])), start=sname, history=list(seq[:k + 1])))
                    except Exception as e:
                        seen_fail.add((sname,) + seq[:k + 1])
                        if len(fails) < 12:
                            fails.append(dict(name="%s: %s after %s" % (type(e).__name__, e, "->".join(seq[:k + 1])), start=sname,
                                              history=list(seq[:k + 1])))
            if len(samples) < 2:
                samples.append(dict(start=sname, example_history=list(OPS[:3])))
    # report each distinct failure kind once (shortest history first)
    fails.sort(key=lambda f: len(f["history"]))
    return dict(evaluations=ev, distinct_nontrivial=ev, samples=samples, failures=fails[:8],
                rule="every sequence of 1..%d operations over the 14-operation alphabet %s from 4 start states, invariant + shadow model checked after "
                     "every step (sequences extending an already failing history are skipped)" % (depth, OPS))


def units():
    return [BoundedUnit("operation-sequences", b_sequences, "all sequences up to depth 3 (thorough 4) x 4 start states")]
