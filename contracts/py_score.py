"""C06, python side: bounded stand-in tying the python references (indexing.calc_drlv2, indexing.refine, indexer.score / refine) and the
f2py wrappers of the compiled kernels to the specification the C kernels are proved against (count within tolerance, Paciorek least squares)."""
import contextlib
import io
import numpy as np
from verif.tunits import repo_module


def spec(ubi, gv, tol, sel=None):
    h = ubi.dot(gv.T)
    hint = np.floor(h + 0.5)
    d2 = ((h - hint) ** 2).sum(axis=0)
    use = (d2 < tol * tol) if sel is None else sel
    n = int(use.sum())
    R = gv[use].T.dot(hint[:, use].T)
    H = hint[:, use].dot(hint[:, use].T)
    if n == 0 or abs(np.linalg.det(H)) < 1e-9:
        return n, d2, None
    ub = R.dot(np.linalg.inv(H))
    return n, d2, np.linalg.inv(ub)


def bounded(ctx):
    from verif import extbuild
    extbuild.ensure_current()
    ix_mod = repo_module("ImageD11.indexing")
    cI = repo_module("ImageD11.cImageD11")
    uc_mod = repo_module("ImageD11.unitcell")
    rng = np.random.RandomState(ctx.seed)
    fails, ev, samples = [], 0, []

    def fail(name, **kw):
        if len(fails) < 8:
            fails.append(dict(name=name, **kw))
    uc = uc_mod.unitcell([3.0, 4.0, 5.0, 90, 100, 90], "P")
    hk = np.array([x[1] for x in uc.gethkls(0.9)], float)
    for case in range(12 if ctx.tier == "quick" else 80):
        q = rng.normal(size=4)
        q /= np.linalg.norm(q)
        a, b, c, d = q
        U = np.array([[a*a+b*b-c*c-d*d, 2*(b*c-a*d), 2*(b*d+a*c)], [2*(b*c+a*d), a*a-b*b+c*c-d*d, 2*(c*d-a*b)],
                      [2*(b*d-a*c), 2*(c*d+a*b), a*a-b*b-c*c+d*d]])
        UB = U.dot(uc.B)
        npk = [0, 1, 2, 7, 60, len(hk)][case % 6]
        gv = UB.dot(hk[rng.permutation(len(hk))[:npk]].T).T if npk else np.zeros((0, 3))
        # most peaks fit well; about a third are badly measured (hkl error between tol and sqrt(tol)): they must NOT take part in the fit
        noise = np.where(rng.rand(len(gv), 1) < 0.35, 0.02, 3e-4) * rng.normal(size=gv.shape)
        gv = np.ascontiguousarray(np.concatenate([gv + noise, rng.uniform(-1, 1, (1 + case % 5, 3))]))
        ubi0 = np.linalg.inv(UB.dot(np.eye(3) + rng.normal(scale=2e-3, size=(3, 3))))
        tol = [0.02, 0.05, 0.1][case % 3]
        n, d2, ubi_ls = spec(ubi0, gv, tol)
        ev += 1
        # count
        got = cI.score(ubi0, gv, tol)
        if got != n:
            fail("cImageD11.score differs from the number of peaks within tolerance", got=int(got), want=n, peaks=len(gv))
        if len(gv) and not np.allclose(ix_mod.calc_drlv2(ubi0, gv), d2, rtol=1e-12, atol=1e-18):
            fail("indexing.calc_drlv2 differs from |h - round(h)|^2", peaks=len(gv))
        # least squares over the peaks within tolerance
        u1 = ubi0.copy()
        n1, s1 = cI.score_and_refine(u1, gv, tol)
        if n1 != n:
            fail("score_and_refine reports another count than score", got=int(n1), want=n)
        if ubi_ls is None:
            if not np.array_equal(u1, ubi0):
                fail("score_and_refine changed the matrix although the normal equations are singular", peaks=n)
        else:
            if not np.allclose(u1, ubi_ls, rtol=1e-7, atol=1e-9):
                fail("score_and_refine is not the least squares solution over the peaks within tolerance", peaks=n)
            if n and not np.isclose(s1, d2[d2 < tol * tol].sum() / 1.0, rtol=1e-9, atol=1e-15) and \
                    not np.isclose(s1, d2[d2 < tol * tol].sum() / n, rtol=1e-9, atol=1e-15):
                fail("score_and_refine returns neither the sum nor the mean of the squared errors before refinement", got=float(s1))
            with contextlib.redirect_stdout(io.StringIO()), contextlib.redirect_stderr(io.StringIO()):
                try:
                    u2 = ix_mod.refine(ubi0.copy(), gv, tol)
                except Exception as e:
                    u2 = None
                    fail("indexing.refine raised %s" % type(e).__name__, peaks=n)
            if u2 is not None and not np.allclose(u2, ubi_ls, rtol=1e-7, atol=1e-9):
                # the python reference returns its input when no peak is indexed after refinement
                n_after = int((((u2.dot(gv.T) - np.round(u2.dot(gv.T))) ** 2).sum(axis=0) < tol * tol).sum())
                if n_after:
                    fail("indexing.refine differs from the least squares solution (and from score_and_refine)", peaks=n)
        # least squares over the peaks carrying a label
        labels = rng.randint(-1, 3, len(gv)).astype(np.int32)
        sel = labels == 1
        nl, d2l, ubi_l = spec(ubi0, gv, tol, sel)
        u3 = ubi0.copy()
        out = cI.refine_assigned(u3, gv, labels, 1)
        npk3, dr3 = int(out[0]), float(out[1])
        if npk3 != nl:
            fail("refine_assigned reports another number of labelled peaks", got=npk3, want=nl)
        if nl and not np.isclose(dr3, d2l[sel].sum() / nl, rtol=1e-9, atol=1e-15) and not np.isclose(dr3, d2l[sel].sum(), rtol=1e-9, atol=1e-15):
            fail("refine_assigned returns neither the mean nor the sum of the squared errors of the labelled peaks", got=dr3)
        if len(samples) < 3:
            samples.append(dict(peaks=len(gv), within_tol=n, tol=tol))
    return dict(evaluations=ev, distinct_nontrivial=ev, samples=samples, failures=fails,
                rule="monoclinic cell, random orientation with 2e-3 distortion, 0/1/2/7/60/all reflections + 1..5 junk vectors, noise 3e-4 (a third of the peaks "
                     "0.02, i.e. outside the tolerance but inside its square root), tolerances "
                     "0.02/0.05/0.1; 12 (thorough 80) cases")
