"""C14 bounded stand-ins: the python glue of ImageD11.sparseframe (round trip dense -> sparse -> dense, sorting, overlap counting)."""
import itertools
import numpy as np
from verif.units import BoundedUnit
from verif.tunits import repo_module


def b_roundtrip(ctx):
    from verif import extbuild
    extbuild.ensure_current()
    sf = repo_module("ImageD11.sparseframe")
    rng = np.random.RandomState(ctx.seed)
    fails, ev, samples = [], 0, []
    shapes = [(2, 2), (2, 5), (7, 3), (16, 16), (33, 65)] + ([(257, 129)] if ctx.tier == "thorough" else [])
    for shape in shapes:
        for fill in (0.0, 0.2, 0.7, 1.0):
            for dt in (np.uint16, np.float32):
                img = (rng.rand(*shape) * 1000).astype(dt)
                mask = (rng.rand(*shape) < fill) if 0 < fill < 1 else np.full(shape, bool(fill))
                mask[0, 0] = mask[-1, -1] = True          # first and last pixel
                if fill == 0.2:
                    mask[shape[0] // 2, :] = False         # an empty row
                ev += 1
                try:
                    sf.from_data_cut(img, 1e9 if dt == np.float32 else 65535, detectormask=mask.astype(np.uint8))   # nothing selected
                    fr = sf.from_data_mask(mask.astype(np.int8), img, {})
                except Exception as e:
                    if len(fails) < 5:
                        fails.append(dict(name="dense -> sparse conversion raised %s: %s" % (type(e).__name__, str(e)[:100]), shape=shape, fill=fill))
                    continue
                name = "intensity" if "intensity" in fr.pixels else list(fr.pixels)[0]
                want_rc = np.argwhere(mask)
                ok = (fr.nnz == mask.sum() and np.array_equal(fr.row, want_rc[:, 0]) and np.array_equal(fr.col, want_rc[:, 1]) and
                      np.array_equal(fr.pixels[name], img[mask]))
                dense = fr.to_dense(name)
                ok = ok and np.array_equal(np.asarray(dense), np.where(mask, img, 0).astype(dense.dtype))
                if not ok and len(fails) < 5:
                    fails.append(dict(name="from_data_mask / to_dense does not reproduce the selected pixels in row-major order", shape=shape, fill=fill, dtype=str(dt)))
                cut = 500
                fr2 = sf.from_data_cut(img, cut, detectormask=mask.astype(np.uint8))
                sel = mask & (img > cut)
                want_rc = np.argwhere(sel)
                n2 = "intensity" if "intensity" in fr2.pixels else list(fr2.pixels)[0]
                ok2 = (fr2.nnz == sel.sum() and np.array_equal(fr2.row, want_rc[:, 0]) and np.array_equal(fr2.col, want_rc[:, 1]) and
                       np.array_equal(fr2.pixels[n2], img[sel]))
                if not ok2 and len(fails) < 5:
                    fails.append(dict(name="from_data_cut does not reproduce the selected pixels in row-major order", shape=shape, fill=fill, dtype=str(dt)))
                # sorting an unsorted frame: establish row-major order and keep values attached
                if fr.nnz > 1:
                    perm = rng.permutation(fr.nnz)
                    un = sf.sparse_frame(fr.row[perm].copy(), fr.col[perm].copy(), fr.shape, itype=fr.row.dtype)
                    un.set_pixels(name, fr.pixels[name][perm].copy())
                    try:
                        un.sort()
                        oks = np.array_equal(un.row, fr.row) and np.array_equal(un.col, fr.col) and np.array_equal(un.pixels[name], fr.pixels[name])
                        if not oks and len(fails) < 5:
                            fails.append(dict(name="sort() does not establish row-major order with values attached", shape=shape))
                    except Exception as e:
                        if len(fails) < 5:
                            fails.append(dict(name="sort() raised %s: %s" % (type(e).__name__, str(e)[:100]), shape=shape))
        if len(samples) < 2:
            samples.append(dict(shape=shape))
    return dict(evaluations=ev, distinct_nontrivial=ev, samples=samples, failures=fails,
                rule="shapes %s x fills {none+corners, 20%% with an empty row, 70%%, all} x uint16/float32; mask and cut routes, sort of a shuffled frame" % shapes)


def b_overlaps(ctx):
    from verif import extbuild
    extbuild.ensure_current()
    sf = repo_module("ImageD11.sparseframe")
    rng = np.random.RandomState(ctx.seed)
    fails, ev, samples = [], 0, []
    lin, mat = sf.overlaps_linear(), sf.overlaps_matrix()
    for it in range(40 if ctx.tier == "quick" else 400):
        shape = (int(rng.randint(2, 40)), int(rng.randint(2, 40)))
        def frame():
            m = rng.rand(*shape) < rng.choice([0.1, 0.4, 0.8])
            rc = np.argwhere(m)
            n = int(rng.randint(1, 6))
            lab = rng.randint(1, n + 1, len(rc)).astype(np.int32)
            return rc[:, 0].astype(np.uint16), rc[:, 1].astype(np.uint16), lab, n
        r1, c1, l1, n1 = frame()
        r2, c2, l2, n2 = frame()
        if len(r1) == 0 or len(r2) == 0:
            continue
        want = {}
        d2 = {(int(a), int(b)): int(l) for a, b, l in zip(r2, c2, l2)}
        for a, b, l in zip(r1, c1, l1):
            if (int(a), int(b)) in d2:
                k = (int(l), d2[(int(a), int(b))])
                want[k] = want.get(k, 0) + 1
        wl = sorted((k[0], k[1], v) for k, v in want.items())
        ev += 1
        for nm, fn in (("linear", lin), ("matrix", mat)):
            try:
                npk, res = fn(r1, c1, l1, n1, r2, c2, l2, n2)
                got = [] if (npk == 0 or res is None) else [tuple(int(x) for x in row) for row in np.asarray(res)[:npk].reshape(npk, 3) if True]
                if sorted(got) != wl or len(set((g[0], g[1]) for g in got)) != len(got):
                    if len(fails) < 5:
                        fails.append(dict(name="overlaps_%s differs from the dictionary count" % nm, want=wl[:6], got=sorted(got)[:6]))
            except Exception as e:
                if len(fails) < 5:
                    fails.append(dict(name="overlaps_%s raised %s: %s" % (nm, type(e).__name__, str(e)[:100])))
        if len(samples) < 2:
            samples.append(dict(shape=shape, pairs=len(wl)))
    return dict(evaluations=ev, distinct_nontrivial=ev, samples=samples, failures=fails,
                rule="seeded random pairs of labelled sparse frames up to 40x40, 1-5 labels each; linear and matrix algorithm vs a dictionary count")


def units():
    return [BoundedUnit("sparseframe-roundtrip-and-sort", b_roundtrip, "5 (thorough 6) shapes x 4 fills x 2 dtypes"),
            BoundedUnit("overlaps-linear-vs-matrix", b_overlaps, "40 (thorough 400) random frame pairs")]
