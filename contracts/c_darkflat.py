"""Contracts for /repo/src/darkflat.c (C20): dark/flat correction, image statistics, histogram, reordering, background."""
from verif.contract import cfn

NPX = ["npx >= 1"]

cfn("darkflat.c:uint16_to_float_darksub", lens={"img": "npx", "drk": "npx", "data": "npx"},
    defined={"img": False}, outputs={"img": "0..npx"}, assigns=["img"], requires=["npx >= 0"],
    loops={0: ["forall(0, i, lambda t: defined(img, t))"]}, props=["C20"])

cfn("darkflat.c:uint16_to_float_darkflm", lens={"img": "npx", "drk": "npx", "flm": "npx", "data": "npx"},
    defined={"img": False}, outputs={"img": "0..npx"}, assigns=["img"], requires=["npx >= 0"],
    loops={0: ["forall(0, i, lambda t: defined(img, t))"]}, props=["C20"])

IMG2 = ["ns >= 1", "nf >= 1", "ns*nf <= INT_MAX"]
cfn("darkflat.c:frelon_lines", lens={"img": "ns*nf"}, assigns=["img"], requires=IMG2,
    wellformed="non-empty image (img[0] is read unconditionally)",
    loops={1: ["0 <= npx", "npx <= j", "isdef('npx')", "isdef('rowsum')", "0 <= i", "i < ns", "p == i*nf"],
           2: ["0 <= i", "i < ns", "p == i*nf", "isdef('avg')"]},
    props=["C20"])

cfn("darkflat.c:frelon_lines_sub", lens={"img": "ns*nf", "drk": "ns*nf"}, assigns=["img"], requires=IMG2,
    wellformed="non-empty image (img[0] is read unconditionally)",
    loops={1: ["0 <= npx", "npx <= j", "isdef('npx')", "isdef('rowsum')", "0 <= i", "i < ns", "p == i*nf"],
           2: ["0 <= i", "i < ns", "p == i*nf", "isdef('avg')"]},
    props=["C20"])

# ---------------------------------------------------------------- statistics
STATS = dict(lens={"img": "npx", "mean": "1", "std": "1"}, defined={"mean": False, "std": False},
             outputs={"mean": "0..1", "std": "0..1"}, assigns=["mean", "std"],
             requires=["npx >= 1", "n > INT_MIN"],
             wellformed="non-empty image (img[0] is read unconditionally); mean and std each address one float")
cfn("darkflat.c:array_mean_var_cut",
    loops={0: ["isdef('s1')", "isdef('s2')"],
           1: ["defined(mean, 0)", "defined(std, 0)", "n > INT_MIN", "isdef('n')"],
           2: ["isdef('s1')", "isdef('s2')", "isdef('nactive')", "0 <= nactive", "nactive <= i", "defined(mean, 0)", "defined(std, 0)"]},
    props=["C20"], **STATS)

MSK = dict(STATS)
MSK["lens"] = dict(STATS["lens"], msk="npx")
MSK["defined"] = dict(STATS["defined"], msk=False)
MSK["outputs"] = dict(STATS["outputs"], msk="0..npx")
MSK["assigns"] = ["mean", "std", "msk"]
cfn("darkflat.c:array_mean_var_msk",
    loops={0: ["isdef('s1')", "isdef('s2')"],
           1: ["defined(mean, 0)", "defined(std, 0)", "n > INT_MIN", "isdef('n')"],
           2: ["isdef('s1')", "isdef('s2')", "isdef('nactive')", "0 <= nactive", "nactive <= i", "defined(mean, 0)", "defined(std, 0)"],
           3: ["forall(0, i, lambda t: defined(msk, t))", "defined(mean, 0)", "defined(std, 0)"]},
    props=["C20"], **MSK)

cfn("darkflat.c:array_stats", lens={"img": "npx", "minval": "1", "maxval": "1", "mean": "1", "var": "1"},
    defined={"minval": False, "maxval": False, "mean": False, "var": False},
    outputs={"minval": "0..1", "maxval": "0..1", "mean": "0..1", "var": "0..1"}, assigns=["minval", "maxval", "mean", "var"],
    requires=["npx >= 1"], wellformed="non-empty image (img[0] is read unconditionally)",
    loops={0: ["isdef('ts1')", "isdef('ts2')", "isdef('tmin')", "isdef('tmax')"]}, props=["C20"])

cfn("darkflat.c:array_histogram", lens={"img": "npx", "hist": "nhist"}, defined={"hist": False}, outputs={"hist": "0..nhist"},
    assigns=["hist"], requires=["npx >= 0", "nhist >= 1", "high > low"],
    loops={0: ["forall(0, nhist, lambda t: And_(defined(hist, t), 0 <= hist[t], hist[t] <= i))"]}, props=["C20"])

# ---------------------------------------------------------------- reordering through address tables
INJ = "forall2(0, N, lambda a, b: implies(a != b, adr[a] != adr[b]))"
for _nm in ("reorder_u16_a32", "reorder_f32_a32"):
    cfn("darkflat.c:" + _nm, lens={"data": "N", "adr": "N", "out": "N"}, assigns=["out"],
        requires=["N >= 0", "forall(0, N, lambda t: adr[t] < N)", INJ],
        wellformed="adr holds distinct addresses below N (a permutation): two equal addresses would be written by different threads",
        props=["C20"])
for _nm in ("reorderlut_u16_a32", "reorderlut_f32_a32"):
    cfn("darkflat.c:" + _nm, lens={"data": "N", "lut": "N", "out": "N"}, defined={"out": False}, outputs={"out": "0..N"}, assigns=["out"],
        requires=["N >= 0", "forall(0, N, lambda t: lut[t] < N)"],
        loops={0: ["forall(0, i, lambda t: defined(out, t))"]},
        wellformed="every look-up address is below N", props=["C20"])

cfn("darkflat.c:bgcalc", lens={"img": "ns*nf", "bg": "ns*nf", "msk": "ns*nf"}, assigns=["bg", "msk"],
    defined={"bg": False, "msk": False}, outputs={"bg": "0..ns*nf", "msk": "0..ns*nf"},
    requires=["ns >= 0", "nf >= 1", "ns*nf <= INT_MAX - nf"],
    wellformed="rows are not empty (the first and last pixel of every row are read unconditionally)",
    loops={0: ["forall(0, ir*nf, lambda t: And_(defined(bg, t), defined(msk, t)))"],
           1: ["0 <= ir", "ir < ns", "ir*nf <= i", "i <= (ir+1)*nf", "isdef('b')",
               "forall(0, ir*nf, lambda t: And_(defined(bg, t), defined(msk, t)))",
               "forall(ir*nf, max_(i, ir*nf + 1), lambda t: And_(defined(bg, t), defined(msk, t), msk[t] <= 1))"],
           2: ["0 <= ir", "ir < ns", "ir*nf - 1 <= i", "i <= (ir+1)*nf - 1", "isdef('b')",
               "forall(0, (ir+1)*nf, lambda t: And_(defined(bg, t), defined(msk, t)))",
               "forall(ir*nf, i + 1, lambda t: msk[t] <= 1)"]},
    props=["C20"])
