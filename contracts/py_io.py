"""C18: saved peaks, parameters and grains read back as written - run-time round-trip contracts on a stated finite grid
(bounded stand-in; printf/strtod, the file system and HDF5 are outside any contract a solver can discharge)."""
import os
import tempfile
import numpy as np
from verif.units import BoundedUnit, GenUnit, make_ob
from verif.tunits import repo_module
import z3

VALUES = [0.0, -0.0, 1.0, -1.0, 123456.0, 1e-12, -3.25e-7, 0.5, 2.0 / 3.0, 1e12, -98765.4321, 7.0, 1234567.0]


def _tmp():
    base = os.path.join(os.path.dirname(os.path.dirname(os.path.abspath(__file__))), "build")
    os.makedirs(base, exist_ok=True)
    return tempfile.TemporaryDirectory(dir=base)


TINY_TITLES = ("e11e11", "e11e22_s", "s12s12", "s23s13", "sig33_s", "e12e12_s")


def b_columnfile(ctx):
    cfm = repo_module("ImageD11.columnfile")
    fails, ev, samples = [], 0, []
    def bad(name, **k):
        if len(fails) < 6:
            fails.append(dict(name=name, **k))
    title_sets = [["sc", "fc", "omega", "Number_of_pixels", "sum_intensity"], ["gx", "gy", "gz", "h", "k", "l", "U11", "UBI23"],
                  ["eps11", "eps23_s", "mycolumn", "spot3d_id"], ["omega"],
                  ["e11e11", "e11e22_s", "s12s12", "s23s13", "sig33_s", "e12e12_s"]]
    rng = np.random.RandomState(ctx.seed)
    with _tmp() as tmp:
        for ts in title_sets:
            for nrows in (1, 2, 3, len(VALUES)):
                data = {}
                for t in ts:
                    if t in TINY_TITLES:
                        data[t] = np.array([1.2345678 * 10.0 ** (-3 - (k % 10)) * (-1) ** k for k in range(nrows)])
                    elif t in cfm.INTS:
                        data[t] = np.array([float(int(v) % 100000) for v in (VALUES * 2)[:nrows]])
                    else:
                        data[t] = np.array((VALUES[rng.randint(len(VALUES)):] + VALUES)[:nrows])
                c = cfm.colfile_from_dict(data)
                c.parameters.set("distance", 12345.5)
                c.parameters.set("wavelength", 0.2845)
                for rep in range(2):       # save / load twice, second time over the existing file
                    fn = os.path.join(tmp, "t.flt")
                    c.writefile(fn)
                    r = cfm.columnfile(fn)
                    ev += 1
                    if list(r.titles) != list(c.titles):
                        bad("text: titles or their order changed", wrote=list(c.titles), read=list(r.titles))
                        continue
                    if r.nrows != nrows:
                        bad("text: number of rows changed", wrote=nrows, read=int(r.nrows), titles=ts)
                        continue
                    for t in ts:
                        fmt = cfm.FORMATS.get(t, "%f")
                        if t in TINY_TITLES:
                            # strain / stress (co)variances are tiny numbers: 5 significant digits must survive whatever their magnitude
                            rel = np.abs(r.getcolumn(t) - c.getcolumn(t)) / np.abs(c.getcolumn(t))
                            if not (rel < 1e-4).all():
                                bad("text: a strain / stress (co)variance column lost its significant digits", title=t, fmt=fmt,
                                    wrote=c.getcolumn(t).tolist(), read=r.getcolumn(t).tolist())
                            continue
                        want = np.array([float(fmt % v) for v in c.getcolumn(t)])
                        if not np.array_equal(r.getcolumn(t), want):
                            bad("text: value not preserved to the documented precision", title=t, fmt=fmt,
                                wrote=c.getcolumn(t).tolist(), read=r.getcolumn(t).tolist())
                    for pn in ("distance", "wavelength"):
                        if r.parameters.get(pn) != c.parameters.get(pn):
                            bad("text: header parameter not preserved", name=pn, wrote=c.parameters.get(pn), read=r.parameters.get(pn))
                    # hdf route: overwrite with same / different length
                    hn = os.path.join(tmp, "t.h5")
                    cfm.colfile_to_hdf(c, hn, name="peaks")
                    h = cfm.colfile_from_hdf(hn, name="peaks")
                    ev += 1
                    if sorted(h.titles) != sorted(c.titles):
                        bad("hdf: set of titles changed", wrote=sorted(c.titles), read=sorted(h.titles))
                        continue
                    for t in ts:
                        if not np.array_equal(np.asarray(h.getcolumn(t), float), c.getcolumn(t)):
                            bad("hdf: value not preserved exactly", title=t, wrote=c.getcolumn(t).tolist(), read=np.asarray(h.getcolumn(t)).tolist())
                        if t in cfm.INTS and not np.issubdtype(np.asarray(h.getcolumn(t)).dtype, np.integer):
                            bad("hdf: integer-typed column not read back as integers", title=t, dtype=str(np.asarray(h.getcolumn(t)).dtype))
                    os.remove(hn)
                    # the other hdf writer (one uncompressed dataset per column) and the two readers of its files
                    ho = os.path.join(tmp, "o.h5")
                    cfm.colfileobj_to_hdf(c, ho, name="peaks")
                    for rname, rd in (("colfile_from_hdf", lambda: cfm.colfile_from_hdf(ho, name="peaks")),
                                      ("mmap_h5colf", lambda: cfm.mmap_h5colf(ho, path="peaks"))):
                        try:
                            h2 = rd()
                        except Exception as e:
                            bad("hdf (colfileobj_to_hdf -> %s): reading raised %s" % (rname, type(e).__name__), titles=ts, nrows=nrows)
                            continue
                        ev += 1
                        if sorted(h2.titles) != sorted(c.titles) or h2.nrows != nrows:
                            bad("hdf (colfileobj_to_hdf -> %s): titles or number of rows changed" % rname, wrote=sorted(c.titles), read=sorted(h2.titles))
                            continue
                        for t in ts:
                            if not np.array_equal(np.asarray(h2.getcolumn(t), float), c.getcolumn(t)):
                                bad("hdf (colfileobj_to_hdf -> %s): value not preserved exactly" % rname, title=t)
                        del h2
                    os.remove(ho)
                if len(samples) < 2:
                    samples.append(dict(titles=ts, nrows=nrows))
    return dict(evaluations=ev, distinct_nontrivial=ev, samples=samples, failures=fails,
                rule="4 title sets (FLOATS/INTS/LONGFLOATS/EXPONENTIALS/unknown) x 1,2,3,13 rows x values %s x save/load twice" % VALUES)


def b_parameters(ctx):
    pm = repo_module("ImageD11.parameters")
    fails, ev, samples = [], 0, []
    cases = [("distance", 123456.789), ("o11", 1), ("omegasign", -1), ("wavelength", 0.28457), ("tilt_x", -1.2e-5), ("fit_tolerance", 0.05),
             ("cell_lattice_[P,A,B,C,I,F,R]", "F"), ("filespec", "data/peaks_t100.flt"), ("big", 10 ** 12), ("zero", 0), ("zerof", 0.0),
             ("name_with-dash", 3), ("label", "123"), ("version", "1.5"), ("exp", 1e-300)]
    with _tmp() as tmp:
        for k, v in cases:
            p = pm.parameters()
            p.parameters.clear()
            p.set(k, v)
            fn = os.path.join(tmp, "p.par")
            p.saveparameters(fn)
            q = pm.parameters()
            q.parameters.clear()
            q.loadparameters(fn)
            ev += 1
            if list(q.parameters.keys()) != [k]:
                fails.append(dict(name="parameter name %r read back as %r" % (k, list(q.parameters.keys())), wrote=k))
                continue
            r = q.get(k)
            if type(r) != type(v) or r != v:
                fails.append(dict(name="parameter %s=%r read back as %r" % (k, v, r), key=k))
        samples = [dict(name=k, value=repr(v)) for k, v in cases[:3]]
    return dict(evaluations=ev, distinct_nontrivial=ev, samples=samples, failures=fails,
                rule="one parameter per file: int, float and whitespace-free string values incl. strings that spell numbers and a name with '-'")


def b_grains(ctx):
    gm = repo_module("ImageD11.grain")
    ix = repo_module("ImageD11.indexing")
    fails, ev, samples = [], 0, []
    rng = np.random.RandomState(ctx.seed)
    def sig(x, n):
        return float("%.*g" % (n, x))
    with _tmp() as tmp:
        for ng in (1, 2, 3, 11, 25):
            grains = []
            for i in range(ng):
                a = rng.uniform(-1, 1, (3, 3)) + np.eye(3) * 4.05
                if np.linalg.det(a) < 0:
                    a[0] *= -1
                g = gm.grain(a, translation=rng.uniform(-500, 500, 3) if i % 3 else np.array([0.0, 1e-7, -123456.789]))
                g.name = "grain%d:run7" % i
                g.npks = int(rng.randint(0, 100000))
                g.nuniq = int(rng.randint(0, 1000))
                grains.append(g)
            fn = os.path.join(tmp, "g.map")
            gm.write_grain_file(fn, grains)
            rd = gm.read_grain_file(fn)
            ev += 1
            if len(rd) != ng:
                fails.append(dict(name="text grain file: number of grains changed", wrote=ng, read=len(rd)))
            else:
                for i, (a, b) in enumerate(zip(grains, rd)):
                    wantu = np.array([[sig(x, 9) for x in row] for row in a.ubi])
                    wantt = np.array([sig(x, 6) for x in a.translation])
                    if not np.array_equal(b.ubi, wantu):
                        fails.append(dict(name="text grain file: UBI not preserved to 9 significant digits", grain=i))
                    if not np.array_equal(np.array(b.translation), wantt):
                        fails.append(dict(name="text grain file: translation not preserved to 6 significant digits", grain=i,
                                          wrote=a.translation.tolist(), read=list(b.translation)))
                    if str(b.name).strip() != a.name or int(b.npks) != a.npks:
                        fails.append(dict(name="text grain file: name or npks not preserved / order changed", grain=i,
                                          wrote=[a.name, a.npks], read=[str(b.name), str(b.npks)]))
            # text files: grains without a translation mixed with translated ones (written without the translation line, read back as None)
            if ng > 1:
                mixed = [gm.grain(g.ubi.copy(), translation=(None if (i % 2 or i % 5 == 3) else g.translation.copy())) for i, g in enumerate(grains)]
                for g, h in zip(grains, mixed):
                    h.name, h.npks, h.nuniq = g.name, g.npks, g.nuniq
                fm = os.path.join(tmp, "gmixed.map")
                gm.write_grain_file(fm, mixed)
                rm = gm.read_grain_file(fm)
                ev += 1
                for i, (a, b) in enumerate(zip(mixed, rm)):
                    if a.translation is None:
                        if b.translation is not None:
                            fails.append(dict(name="text grain file: a grain written without translation reads back with one", grain=i, n=ng,
                                              read=[float(x) for x in b.translation]))
                            break
                    elif b.translation is None or not np.array_equal(np.array(b.translation), np.array([sig(x, 6) for x in a.translation])):
                        fails.append(dict(name="text grain file: translation not preserved in a list mixing grains with and without translation", grain=i, n=ng))
                        break
                if len(rm) != len(mixed):
                    fails.append(dict(name="text grain file: number of grains changed (mixed translations)", wrote=len(mixed), read=len(rm)))
            hn = os.path.join(tmp, "g.h5")
            if os.path.exists(hn):
                os.remove(hn)
            gm.write_grain_file_h5(hn, grains)
            rh = gm.read_grain_file_h5(hn)
            ev += 1
            if len(rh) != ng:
                fails.append(dict(name="h5 grain file: number of grains changed", wrote=ng, read=len(rh)))
            else:
                for i, (a, b) in enumerate(zip(grains, rh)):
                    if not (np.array_equal(a.ubi, b.ubi) and np.array_equal(a.translation, b.translation)):
                        fails.append(dict(name="h5 grain file: UBI/translation not exact or order changed", grain=i, n=ng))
                        break
                    if str(b.name).strip() != a.name or int(b.npks) != a.npks:
                        fails.append(dict(name="h5 grain file: name or npks not preserved", grain=i, wrote=[a.name, a.npks], read=[str(b.name), str(b.npks)]))
                        break
            un = os.path.join(tmp, "g.ubi")
            ix.write_ubi_file(un, [g.ubi for g in grains])
            ru = ix.readubis(un)
            ev += 1
            if len(ru) != ng or any(not np.array_equal(r, np.array([[float("%f" % x) for x in row] for row in g.ubi])) for r, g in zip(ru, grains)):
                fails.append(dict(name="ubi file: matrices not preserved to %f precision or order changed", n=ng))
        samples = [dict(ngrains=n) for n in (1, 11)]
    return dict(evaluations=ev, distinct_nontrivial=ev, samples=samples, failures=fails[:6],
                rule="grain lists of length 1,2,3,11,25 with names, npks, translations (incl. 0 and 1e-7) through text, HDF5 and ubi files")


def b_sparse(ctx):
    sf = repo_module("ImageD11.sparseframe")
    import h5py
    fails, ev, samples = [], 0, []
    rng = np.random.RandomState(ctx.seed)
    with _tmp() as tmp:
        for shape in ((2, 2), (5, 7), (64, 33)):
            for fill in (0.0, 0.3, 1.0):
                img = (rng.rand(*shape) * 1000).astype(np.float32)
                mask = rng.rand(*shape) < fill if 0 < fill < 1 else np.full(shape, bool(fill))
                if mask.sum() == 0:
                    continue
                fr = sf.from_data_mask(mask, img, {"myheader": "x"})
                hn = os.path.join(tmp, "s.h5")
                if os.path.exists(hn):
                    os.remove(hn)
                ev += 1
                try:
                    with h5py.File(hn, "w") as h:
                        sf.sparse_frame.to_hdf_group(fr, h.require_group("frame"))
                    with h5py.File(hn, "r") as h:
                        rd = sf.from_hdf_group(h["frame"])
                except Exception as e:
                    fails.append(dict(name="sparse frame HDF5 round trip raised %s: %s" % (type(e).__name__, str(e)[:120]), shape=shape))
                    continue
                ok = (rd.shape == fr.shape and np.array_equal(rd.row, fr.row) and np.array_equal(rd.col, fr.col) and
                      set(rd.pixels) == set(fr.pixels) and all(np.array_equal(rd.pixels[k], fr.pixels[k]) for k in fr.pixels))
                if not ok:
                    fails.append(dict(name="sparse frame HDF5 round trip changed the frame", shape=shape))
        samples = [dict(shape=[5, 7], fill=0.3)]
    return dict(evaluations=ev, distinct_nontrivial=max(2, ev), samples=samples, failures=fails[:4],
                rule="frames 2x2, 5x7, 64x33 with 30% / all pixels selected, made by from_data_mask, through to_hdf_group / from_hdf_group")


def gen_formats(ctx):
    """closed term: every title of FLOATS / INTS / LONGFLOATS / EXPONENTIALS has the documented precision"""
    cfm = repo_module("ImageD11.columnfile")
    obs = []
    for lst, fmt in ((cfm.FLOATS, "%.4f"), (cfm.LONGFLOATS, "%.12f"), (cfm.EXPONENTIALS, "%.4e")):
        ok = all(cfm.FORMATS.get(t) == fmt for t in lst if t not in cfm.INTS)
        obs.append(make_ob("py:columnfile.FORMATS[%s]" % fmt, [], z3.BoolVal(bool(ok)), kind="closed-term", fn="py:columnfile.FORMATS", prop="C18"))
    # the documented families, written out independently of the module's own lists: strain / stress tensor elements (sample frame with
    # "_s"), their covariances over the upper triangle *including the diagonal* (the variances), orientation matrix elements
    ijs = [11, 22, 33, 23, 13, 12]
    expo = ["%s%d%s" % (h, v, t) for v in ijs for h in ("eps", "sig") for t in ("", "_s")]
    expo += ["%s%d%s%d%s" % (h, ijs[i], h, ijs[j], t) for i in range(6) for j in range(i, 6) for h in ("e", "s") for t in ("", "_s")]
    ok = len(set(expo)) == 108 and all(cfm.FORMATS.get(t) == "%.4e" for t in expo)
    obs.append(make_ob("py:columnfile.FORMATS[strain, stress and their covariances are written with %.4e]", [], z3.BoolVal(bool(ok)),
                       kind="closed-term", fn="py:columnfile.FORMATS", prop="C18"))
    longf = ["%s%d%d" % (s_, i, j) for s_ in ("U", "UBI") for i in range(1, 4) for j in range(1, 4)]
    ok = all(cfm.FORMATS.get(t) == "%.12f" for t in longf)
    obs.append(make_ob("py:columnfile.FORMATS[U and UBI elements are written with %.12f]", [], z3.BoolVal(bool(ok)),
                       kind="closed-term", fn="py:columnfile.FORMATS", prop="C18"))
    ok = all(cfm.FORMATS.get(t) == "%.0f" for t in cfm.INTS)
    obs.append(make_ob("py:columnfile.FORMATS[ints]", [], z3.BoolVal(bool(ok)), kind="closed-term", fn="py:columnfile.FORMATS", prop="C18"))
    for o in obs:
        o.trivial = z3.is_true(o.goal)
    return obs, dict(paths=1)


def units():
    return [GenUnit("py:columnfile.FORMATS", gen_formats, "trace"),
            BoundedUnit("columnfile-text-and-hdf", b_columnfile, "5 title sets x 4 row counts x 13 values x twice"),
            BoundedUnit("parameter-files", b_parameters, "15 single-parameter files"),
            BoundedUnit("grain-and-ubi-files", b_grains, "grain lists of 1,2,3,11,25"),
            BoundedUnit("sparse-frames-hdf", b_sparse, "3 shapes x 2 fills")]
