"""Contracts for /repo/src/localmaxlabel.c (C20): the neighbour-maximum pass.  The three-stage driver `localmaxlabel` ends in a parallel
region with a hand-made work split whose threads read cells other threads write (known finding of C13); it is outside engine A."""
from verif.contract import cfn

ROW = "exists(1, dim0, lambda r: i == r*dim1)"
cfn("localmaxlabel.c:neighbormax", lens={"im": "dim0*dim1", "lout": "dim0*dim1", "l": "dim0*dim1"},
    defined={"lout": False, "l": False}, assigns=["lout", "l"],
    requires=["dim0 >= 2", "dim1 >= 2", "dim0*dim1 <= INT_MAX"],
    wellformed="image of at least 2x2 pixels",
    loops={0: ["isdef('npks')", "npks == 0"],
           1: ["isdef('npks')", "0 <= npks", "npks <= i"],
           2: ["exists(1, dim0 - 1, lambda r: i == r*dim1)", "dim1 <= i", "i < (dim0 - 1)*dim1", "1 <= j", "isdef('k0')", "isdef('k1')", "isdef('mx0')", "isdef('mx1')",
               "defined(lout, i)", "0 <= lout[i]", "lout[i] <= j", "1 <= k0", "k0 <= 9", "4 <= k1", "k1 <= 9"]},
    ensures=["0 <= result"], props=["C20"])
