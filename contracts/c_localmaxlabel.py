"""Contracts for /repo/src/localmaxlabel.c (C20): the neighbour-maximum pass.  The three-stage driver `localmaxlabel` ends in a parallel
region with a hand-made work split whose threads read cells other threads write (known finding of C13); it is outside engine A."""
from verif.contract import cfn

ROW = "exists(1, dim0, lambda r: i == r*dim1)"
cfn("localmaxlabel.c:neighbormax", lens={"im": "dim0*dim1", "lout": "dim0*dim1", "l": "dim0*dim1"},
    defined={"lout": False, "l": False}, assigns=["lout", "l"],
    requires=["dim0 >= 2", "dim1 >= 2", "dim0*dim1 <= INT_MAX"],
    wellformed="image of at least 2x2 pixels",
    loops={0: ["isdef('npks')", "npks == 0"],
           1: ["isdef('npks')", "0 <= npks", "npks <= i"],
           2: ["exists(1, dim0 - 1, lambda r: i == r*dim1)", "dim1 <= i", "i < (dim0 - 1)*dim1", "1 <= j", "isdef('k0')", "isdef('k1')", "isdef('mx0')", "isdef('mx1')",
               "defined(lout, i)", "0 <= lout[i]", "lout[i] <= j", "1 <= k0", "k0 <= 9", "4 <= k1", "k1 <= 9",
               "k0 <= 3", "k1 <= 6",
               ("C13", "mx0 == cmax(i + j - 1)"), ("C13", "im[i + j + off9(k0)] == mx0"), ("C13", "mx1 == cmax(i + j)"), ("C13", "im[i + j + off9(k1)] == mx1")]},
    locals={
        "cmax": "lambda c: max_(max_(im[c - dim1], im[c]), im[c + dim1])",
        # offset of direction code k = 1..9: column to the left top to bottom, own column, column to the right
        "off9": "lambda k: ite(k <= 3, -1, ite(k <= 6, 0, 1)) + ite(Or_(k == 1, k == 4, k == 7), -dim1, ite(Or_(k == 2, k == 5, k == 8), 0, dim1))"},
    # C13, first stage: when an interior pixel is written it receives a direction code 1..9 that points at a largest of its nine
    # neighbours (5 = itself).  Which of several equal maxima is chosen is deliberately left open: C13 speaks about tie-free images.
    asserts={2: [("C13", "And_(1 <= l[p], l[p] <= 9)"), ("C13", "im[p + off9(l[p])] == max_(max_(cmax(p - 1), cmax(p)), cmax(p + 1))")]},
    ensures=["0 <= result"], props=["C13", "C20"])
