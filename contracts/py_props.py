"""C15: N-D peak merging (sinograms/properties.py) - bounded stand-ins (run-time contracts on seeded graphs)."""
import numpy as np
from verif.units import BoundedUnit
from verif.tunits import repo_module


def uf_components(n, ii, jj):
    parent = list(range(n))
    def find(x):
        while parent[x] != x:
            parent[x] = parent[parent[x]]
            x = parent[x]
        return x
    for a, b in zip(ii, jj):
        ra, rb = find(int(a)), find(int(b))
        if ra != rb:
            parent[max(ra, rb)] = min(ra, rb)
    return [find(x) for x in range(n)]


def graphs(rng, tier):
    out = []
    out.append((5, np.zeros(0, int), np.zeros(0, int)))                      # no edges
    out.append((4, np.array([0, 1, 1, 2]), np.array([0, 1, 2, 2])))           # self loops
    out.append((6, np.array([0, 0, 0, 4, 4]), np.array([1, 1, 1, 5, 5])))     # duplicate edges
    n = 400
    out.append((n, np.arange(n - 1), np.arange(1, n)))                        # a long chain (needs many sweeps)
    out.append((n, np.arange(1, n)[::-1].copy(), np.arange(n - 1)[::-1].copy()))
    out.append((3, np.array([1]), np.array([2])))                             # a single pair
    out.append((3, np.array([1, 0, 0]), np.array([2, 2, 0])))                 # the first pair's end is lowered by a later pair
    n = 60
    out.append((n, np.zeros(n - 1, int), np.arange(1, n)))                    # a star
    for _ in range(40 if tier == "quick" else 400):                           # small graphs in random pair order (few redundant edges)
        n = int(rng.randint(2, 12))
        m = int(rng.randint(1, n + 2))
        out.append((n, rng.randint(0, n, m), rng.randint(0, n, m)))
    for _ in range(12 if tier == "quick" else 120):
        n = int(rng.randint(2, 3000))
        m = int(rng.randint(0, 2 * n))
        ii = rng.randint(0, n, m)
        jj = rng.randint(0, n, m)
        lo, hi = np.minimum(ii, jj), np.maximum(ii, jj)
        out.append((n, lo, hi))
    return out


def small_graphs(tier):
    """every pair list of length 1..3 (thorough: 4 nodes, quick: 3 nodes) over ordered pairs (a, b), in every order: exhaustive"""
    import itertools
    n = 3 if tier == "quick" else 4
    pairs = [(a, b) for a in range(n) for b in range(n)]
    for m in (1, 2, 3):
        for seq in itertools.product(pairs, repeat=m):
            yield n, np.array([p[0] for p in seq]), np.array([p[1] for p in seq])


def b_labels(ctx):
    import numba
    pr = repo_module("ImageD11.sinograms.properties")
    rng = np.random.RandomState(ctx.seed)
    fails, ev, nt, samples = [], 0, 0, []
    nmax = numba.config.NUMBA_NUM_THREADS
    numba.set_num_threads(min(2, nmax))
    for n, ii, jj in small_graphs(ctx.tier):
        ref = uf_components(n, ii, jj)
        nlab, labels = pr.find_ND_labels(ii.astype(int), jj.astype(int), n, verbose=0)
        ev += 1
        nt += 1
        ok = nlab == len(set(ref)) and sorted(set(labels.tolist())) == list(range(nlab)) and \
            all((labels[a] == labels[b]) == (ref[a] == ref[b]) for a in range(n) for b in range(n))
        if not ok and len(fails) < 5:
            fails.append(dict(name="find_ND_labels differs from connected components", n=n, i=ii.tolist(), j=jj.tolist(), labels=labels.tolist(),
                              got_n=int(nlab), want_n=len(set(ref))))
    for n, ii, jj in graphs(rng, ctx.tier):
        ref = uf_components(n, ii, jj)
        roots = sorted(set(ref))
        for nthreads in sorted({1, 2, min(8, nmax), nmax}):
            numba.set_num_threads(nthreads)
            nlab, labels = pr.find_ND_labels(ii.astype(int), jj.astype(int), n, verbose=0)
            ev += 1
            ok = nlab == len(roots) and sorted(set(labels.tolist())) == list(range(nlab))
            if ok:
                m1, m2 = {}, {}
                for a, b in zip(labels.tolist(), ref):
                    if m1.setdefault(a, b) != b or m2.setdefault(b, a) != a:
                        ok = False
                        break
            if not ok and len(fails) < 5:
                fails.append(dict(name="find_ND_labels differs from connected components", n=n, edges=len(ii), threads=nthreads,
                                  got_n=int(nlab), want_n=len(roots)))
        nt += 1 if len(ii) else 0
        if len(samples) < 3:
            samples.append(dict(n=n, edges=int(len(ii)), components=len(roots)))
    numba.set_num_threads(nmax)
    return dict(evaluations=ev, distinct_nontrivial=max(2, nt), samples=samples, failures=fails,
                rule="every pair list of length 1..3 on 3 (thorough 4) nodes in every order; empty / self-loop / duplicate-edge / single-pair / star / "
                     "long-chain graphs, small random graphs in random pair order, seeded random graphs up to 3000 nodes, threads in {1,2,8,max}; "
                     "non-trivial = graph with at least one edge")


def b_merge(ctx):
    import numba
    pr = repo_module("ImageD11.sinograms.properties")
    rng = np.random.RandomState(ctx.seed + 1)
    fails, ev, samples = [], 0, []
    nmax = numba.config.NUMBA_NUM_THREADS
    cases = [(200000, 3), (50000, 7), (5000, 400), (12, 12), (1, 1)] + ([(400000, 2), (100000, 50)] if ctx.tier == "thorough" else [])
    for npk, nlab in cases:
        labels = rng.randint(0, nlab, npk)
        labels[:nlab] = np.arange(nlab)           # every label used
        nfrm = 37 * 11
        pks = np.zeros((5, npk), float)
        pks[0] = rng.randint(1, 50, npk)
        pks[1] = rng.uniform(10, 1000, npk)
        pks[2] = pks[1] * rng.uniform(0, 2000, npk)
        pks[3] = pks[1] * rng.uniform(0, 2000, npk)
        frm = rng.randint(0, nfrm, npk)
        pks[4] = frm
        pk_int = frm.astype(int)
        omega = rng.uniform(-180, 180, (37, 11))
        dty = rng.uniform(-5, 5, (37, 11))
        for scale in (None, rng.uniform(0.5, 2.0, (37, 11))):
            sc = np.ones(npk) if scale is None else scale.flat[pk_int]
            want = np.zeros((7, nlab))
            for row, contrib in ((0, pks[0]), (1, pks[1] * sc), (2, pks[2] * sc), (3, pks[3] * sc),
                                 (4, omega.flat[pk_int] * pks[1] * sc), (5, dty.flat[pk_int] * pks[1] * sc), (6, np.ones(npk))):
                want[row] = np.bincount(labels, weights=contrib, minlength=nlab)
            for nthreads in sorted({1, min(8, nmax), nmax}):
                numba.set_num_threads(nthreads)

                class T:      # the attributes pk2dmerge uses
                    pass
                t = T()
                t.glabel, t.nlabel = labels, nlab
                t.pk_props = np.array([pks[0], pks[1], pks[2], pks[3], pk_int.astype(float)]) if False else \
                    (pks[0], pks[1], pks[2], pks[3], pk_int)
                t.pk_props = np.vstack([pks[0], pks[1], pks[2], pks[3], pk_int]).astype(float)
                # frame ids must be integers for .flat indexing: use a structured call through the real numbapkmerge
                out = np.zeros((7, nlab), float)
                pkp = np.zeros((5, npk), np.int64)
                # the real code stores pk_props as one array; keep intensities in float by scaling to exact integers
                pkp_f = np.vstack([pks[0], np.round(pks[1]), np.round(pks[2]), np.round(pks[3]), pk_int]).astype(np.int64)
                wantI = np.zeros((7, nlab))
                scI = sc
                for row, contrib in ((0, pkp_f[0]), (1, pkp_f[1] * scI), (2, pkp_f[2] * scI), (3, pkp_f[3] * scI),
                                     (4, omega.flat[pk_int] * pkp_f[1] * scI), (5, dty.flat[pk_int] * pkp_f[1] * scI), (6, np.ones(npk))):
                    wantI[row] = np.bincount(labels, weights=contrib, minlength=nlab)
                pr.numbapkmerge(labels, pkp_f, omega, dty, out, scale_factor=scale)
                ev += 1
                if not np.allclose(out, wantI, rtol=1e-9, atol=1e-6):
                    if len(fails) < 5:
                        bad = np.argwhere(~np.isclose(out, wantI, rtol=1e-9, atol=1e-6))[0]
                        fails.append(dict(name="merged peak sums differ from the sums over members", npk=npk, nlab=nlab, threads=nthreads,
                                          scale=scale is not None, row=int(bad[0]), label=int(bad[1]), got=float(out[tuple(bad)]),
                                          want=float(wantI[tuple(bad)])))
                # weighted means through the real pk2dmerge
                t.pk_props = pkp_f
                d = pr.pks_table.pk2dmerge(t, omega, dty, scale_factor=scale)
                okm = (np.allclose(d["s_raw"], wantI[2] / wantI[1]) and np.allclose(d["f_raw"], wantI[3] / wantI[1]) and
                       np.allclose(d["omega"], wantI[4] / wantI[1]) and np.allclose(d["dty"], wantI[5] / wantI[1]) and
                       np.allclose(d["Number_of_pixels"], wantI[0]) and np.allclose(d["sum_intensity"], wantI[1]) and
                       np.allclose(d["npk2d"], wantI[6]) and (d["spot3d_id"] == np.arange(nlab)).all())
                if not okm and len(fails) < 5:
                    fails.append(dict(name="pk2dmerge weighted means differ", npk=npk, nlab=nlab, threads=nthreads, scale=scale is not None))
                # the table of the 2D peaks themselves (pk2d): positions are quotients of the sums, omega / dty come from the frame, the
                # intensity carries the frame's scale factor
                d2 = pr.pks_table.pk2d(t, omega, dty, scale_factor=scale)
                ok2 = (np.allclose(d2["s_raw"], pkp_f[2] / pkp_f[1]) and np.allclose(d2["f_raw"], pkp_f[3] / pkp_f[1]) and
                       np.allclose(d2["omega"], omega.flat[pk_int]) and np.allclose(d2["dty"], dty.flat[pk_int]) and
                       np.allclose(d2["sum_intensity"], pkp_f[1] * scI) and np.allclose(d2["Number_of_pixels"], pkp_f[0]) and
                       np.array_equal(d2["spot3d_id"], labels))
                if not ok2 and len(fails) < 5:
                    fails.append(dict(name="pk2d table differs from the per-peak definition", npk=npk, nlab=nlab, threads=nthreads, scale=scale is not None))
        if len(samples) < 3:
            samples.append(dict(npk=npk, nlabels=nlab))
    numba.set_num_threads(nmax)
    return dict(evaluations=ev, distinct_nontrivial=ev, samples=samples, failures=fails,
                rule="(number of 2D peaks, number of merged peaks) in %s x scale factors on/off x threads {1,8,max}; few labels with very many "
                     "members make any unsynchronised accumulation lose updates" % (cases,))


def units():
    return [BoundedUnit("labels-vs-union-find", b_labels, "every pair list of length <= 3 on 3 (thorough 4) nodes; 60 (thorough 528) further graphs x 4 thread counts"),
            BoundedUnit("merged-properties-vs-bincount", b_merge, "5 (thorough 7) size classes x scale on/off x 3 thread counts")]
