"""Contracts for /repo/src/sparse_image.c (C14, C20)."""
from verif.contract import cfn


def T(tag, *xs):
    return [(tag, x) for x in xs]


# ---------------------------------------------------------------- dense -> sparse conversion
def tosparse(name, sel, loops2=True):
    POS = "lambda t: row[t]*nf + col[t]"
    common = ["ns >= 0", "nf >= 0", "ns <= 65535", "nf <= 65535", "ns*nf <= INT_MAX"]
    loc = {"sel": sel, "pos": POS}
    def inv(n):
        return (["0 <= k", "k <= %s" % n, "isdef('k')",
                 "forall(0, k, lambda t: And_(defined(row, t), defined(col, t), defined(val, t), 0 <= col[t], col[t] < nf, 0 <= row[t], row[t] < ns))"]
                + T("C14", "k == count('nsel', %s, sel)" % n,
                    "forall(0, k, lambda t: And_(pos(t) < %s, sel(pos(t)), val[t] == img[pos(t)]))" % n,
                    "forall(0, k - 1, lambda t: pos(t) < pos(t + 1))"))
    if loops2:
        loops = {0: inv("i*nf"), 1: ["0 <= i", "i < ns"] + inv("i*nf + j")}
    else:
        loops = {0: inv("i")}
    cfn("sparse_image.c:" + name,
        lens={"img": "ns*nf", "msk": "ns*nf", "row": "ns*nf", "col": "ns*nf", "val": "ns*nf"},
        defined={"row": False, "col": False, "val": False}, assigns=["row", "col", "val"],
        requires=common + (["cut >= 0", "cut < 4294967296"] if name == "tosparse_u32" else []),
        locals=loc, loops=loops,
        ensures=["0 <= result", "result <= ns*nf",
                 "forall(0, result, lambda t: And_(defined(row, t), defined(col, t), defined(val, t)))"]
                + T("C14", "result == count('nsel', ns*nf, sel)",
                    "forall(0, result, lambda t: And_(0 <= col[t], col[t] < nf, pos(t) < ns*nf, sel(pos(t)), val[t] == img[pos(t)]))",
                    "forall(0, result - 1, lambda t: pos(t) < pos(t + 1))"),
        wellformed="image of at most 65535 x 65535 pixels (coordinates are stored as uint16); row, col, val can hold every pixel",
        props=["C14", "C20"])


tosparse("tosparse_f32", "lambda p: And_(msk[p] != 0, img[p] > cut)")
tosparse("tosparse_u16", "lambda p: And_(msk[p] != 0, img[p] > mod_(cut, 65536))")
tosparse("tosparse_u32", "lambda p: And_(msk[p] != 0, img[p] > toint(cut))", loops2=False)

# ---------------------------------------------------------------- sortedness
LT = "lambda t: Or_(i[t-1] < i[t], And_(i[t-1] == i[t], j[t-1] < j[t]))"
cfn("sparse_image.c:sparse_is_sorted", lens={"i": "nnz", "j": "nnz"},
    requires=["nnz >= 0", "nnz < INT_MAX"], locals={"lt": LT},
    loops={0: ["1 <= es", "es <= nnz + 1", "1 <= ed", "ed <= nnz + 1", "isdef('es')", "isdef('ed')"]
              + T("C14", "And_(es == nnz + 1, ed == nnz + 1) == forall(1, k, lt)",
                  "implies(es != nnz + 1, es < k)", "implies(ed != nnz + 1, ed < k)")},
    ensures=T("C14", "(result == 0) == forall(1, nnz, lt)"),
    props=["C14", "C20"])

# ---------------------------------------------------------------- overlaps of two sorted coordinate lists
SORTED1 = "forall(1, nnz1, lambda t: Or_(i1[t-1] < i1[t], And_(i1[t-1] == i1[t], j1[t-1] < j1[t])))"
SORTED2 = "forall(1, nnz2, lambda t: Or_(i2[t-1] < i2[t], And_(i2[t-1] == i2[t], j2[t-1] < j2[t])))"
# strict sortedness for all pairs (what "sorted" means; the adjacent form above follows from it, the converse needs an induction the
# solver cannot do, so both are stated) and the three invariants of the completeness argument of the two-pointer merge
GSORTED1 = "forall2(0, nnz1, lambda a, b: implies(a < b, i1[a]*65536 + j1[a] < i1[b]*65536 + j1[b]))"
GSORTED2 = "forall2(0, nnz2, lambda a, b: implies(a < b, i2[a]*65536 + j2[a] < i2[b]*65536 + j2[b]))"
OV_I1 = "forall(0, p1, lambda a: forall(p2, nnz2, lambda b: key1(a) < key2(b)))"
OV_I2 = "forall(0, p2, lambda b: forall(p1, nnz1, lambda a: key2(b) < key1(a)))"
OV_I3 = "forall(0, %s, lambda a: forall(0, %s, lambda b: implies(key1(a) == key2(b), exists(0, nhit, lambda t: And_(k1[t] == a, k2[t] == b)))))"
cfn("sparse_image.c:sparse_overlaps",
    lens={"i1": "nnz1", "j1": "nnz1", "k1": "nnz1", "i2": "nnz2", "j2": "nnz2", "k2": "nnz2"},
    defined={"k1": False, "k2": False}, outputs={"k1": "0..nnz1", "k2": "0..nnz2"}, assigns=["k1", "k2"],
    requires=["nnz1 >= 0", "nnz2 >= 0"] + T("C14", SORTED1, SORTED2, GSORTED1, GSORTED2),
    locals={"key1": "lambda t: i1[t]*65536 + j1[t]", "key2": "lambda t: i2[t]*65536 + j2[t]"},
    loops={0: ["0 <= p1", "p1 <= nnz1", "0 <= p2", "p2 <= nnz2", "0 <= nhit", "nhit <= p1", "nhit <= p2", "isdef('nhit')",
               "forall(0, nhit, lambda t: And_(defined(k1, t), defined(k2, t), 0 <= k1[t], k1[t] < p1, 0 <= k2[t], k2[t] < p2))"]
              + T("C14", "forall(0, nhit, lambda t: key1(k1[t]) == key2(k2[t]))",
                  "forall(0, nhit - 1, lambda t: And_(k1[t] < k1[t+1], k2[t] < k2[t+1]))", OV_I1, OV_I2, OV_I3 % ("p1", "p2")),
           1: ["nhit <= p1", "0 <= nhit", "nhit <= nnz1", "nhit <= nnz2", "forall(0, p1, lambda t: defined(k1, t))",
               "forall(0, nhit, lambda t: And_(defined(k2, t), 0 <= k1[t], k1[t] < nnz1, 0 <= k2[t], k2[t] < nnz2))"]
              + T("C14", "forall(0, nhit, lambda t: key1(k1[t]) == key2(k2[t]))", "forall(nhit, p1, lambda t: k1[t] == 0)",
                  "forall(0, nhit - 1, lambda t: And_(k1[t] < k1[t+1], k2[t] < k2[t+1]))", OV_I3 % ("nnz1", "nnz2")),
           2: ["nhit <= p2", "0 <= nhit", "nhit <= nnz1", "nhit <= nnz2", "forall(0, nnz1, lambda t: defined(k1, t))", "forall(0, p2, lambda t: defined(k2, t))",
               "forall(0, nhit, lambda t: And_(0 <= k1[t], k1[t] < nnz1, 0 <= k2[t], k2[t] < nnz2))"]
              + T("C14", "forall(0, nhit, lambda t: key1(k1[t]) == key2(k2[t]))", "forall(nhit, nnz1, lambda t: k1[t] == 0)",
                  "forall(nhit, p2, lambda t: k2[t] == 0)", "forall(0, nhit - 1, lambda t: And_(k1[t] < k1[t+1], k2[t] < k2[t+1]))",
                  OV_I3 % ("nnz1", "nnz2"))},
    ensures=["0 <= result", "result <= nnz1", "result <= nnz2",
             "forall(0, result, lambda t: And_(0 <= k1[t], k1[t] < nnz1, 0 <= k2[t], k2[t] < nnz2))"]
            + T("C14", "forall(0, result, lambda t: key1(k1[t]) == key2(k2[t]))",
                "forall(0, result - 1, lambda t: And_(k1[t] < k1[t+1], k2[t] < k2[t+1]))",
                "forall(result, nnz1, lambda t: k1[t] == 0)", "forall(result, nnz2, lambda t: k2[t] == 0)",
                # completeness: every pixel present in both lists is reported
                "forall(0, nnz1, lambda a: forall(0, nnz2, lambda b: implies(key1(a) == key2(b), "
                "exists(0, result, lambda t: And_(k1[t] == a, k2[t] == b)))))"),
    props=["C14", "C20"])

cfn("sparse_image.c:coverlaps",
    lens={"row1": "nnz1", "col1": "nnz1", "labels1": "nnz1", "row2": "nnz2", "col2": "nnz2", "labels2": "nnz2",
          "mat": "npk1*npk2", "results": "3*npk1*npk2"},
    defined={"mat": False, "results": False}, assigns=["mat", "results"],
    requires=["nnz1 >= 0", "nnz2 >= 0", "npk1 >= 0", "npk2 >= 0", "3*npk1*npk2 <= INT_MAX",
              "forall(0, nnz1, lambda t: And_(1 <= labels1[t], labels1[t] <= npk1))",
              "forall(0, nnz2, lambda t: And_(1 <= labels2[t], labels2[t] <= npk2))"],
    wellformed="labels in 1..npk (no background pixels in the lists), results can hold 3*npk1*npk2 integers, at most nnz1 <= INT_MAX shared pixels",
    loops={0: ["forall(0, i1, lambda q: And_(defined(mat, q), mat[q] == 0))"],
           1: ["0 <= i1", "i1 <= nnz1", "0 <= i2", "i2 <= nnz2",
               "forall(0, npk1*npk2, lambda q: And_(defined(mat, q), 0 <= mat[q], mat[q] <= i1))"],
           2: ["0 <= npk", "npk <= i1*npk2", "isdef('npk')", "forall(0, npk1*npk2, lambda q: defined(mat, q))"],
           3: ["0 <= i1", "i1 < npk1", "0 <= npk", "npk <= i1*npk2 + i2", "isdef('npk')", "forall(0, npk1*npk2, lambda q: defined(mat, q))"]},
    # the merge walks both lists by comparing keys: the key computed by the code must be the row-major position key
    asserts={"before^:if(p1==p2)": T("C14", "p1 == row1[i1]*65536 + col1[i1]", "p2 == row2[i2]*65536 + col2[i2]")},
    ensures=["0 <= result", "result <= npk1*npk2"],
    props=["C14", "C20"])

cfn("sparse_image.c:sparse_blob2Dproperties",
    lens={"data": "nnz", "i": "nnz", "j": "nnz", "labels": "nnz", "res": "npk*NPROPERTY2D"},
    defined={"res": False}, outputs={"res": "0..npk*NPROPERTY2D"}, assigns=["res"],
    requires=["nnz >= 0", "npk >= 0", "npk*NPROPERTY2D <= INT_MAX", "forall(0, nnz, lambda t: And_(0 <= labels[t], labels[t] <= npk))"],
    wellformed="labels in 0..npk (0 = background)",
    loops={0: ["forall(0, k, lambda q: defined(res, q))"],
           1: ["forall(0, npk*NPROPERTY2D, lambda q: defined(res, q))"],
           2: ["forall(0, npk*NPROPERTY2D, lambda q: defined(res, q))"]},
    props=["C20"])

# ---------------------------------------------------------------- walks over the row above (memory safety needs no sortedness)
cfn("sparse_image.c:sparse_smooth", lens={"v": "nnz", "i": "nnz", "j": "nnz", "s": "nnz"},
    defined={"s": False}, outputs={"s": "0..nnz"}, assigns=["s"], requires=["nnz >= 0"],
    loops={0: ["forall(0, k, lambda t: defined(s, t))"],
           1: ["forall(0, nnz, lambda t: defined(s, t))", "0 <= prow", "prow <= k", "isdef('prow')"],
           2: ["forall(0, nnz, lambda t: defined(s, t))", "0 <= k", "k < nnz", "0 <= prow", "prow <= k", "isdef('prow')"],
           3: ["forall(0, nnz, lambda t: defined(s, t))", "0 <= k", "k < nnz", "0 <= prow", "prow <= k", "0 <= p", "p < nnz",
               "isdef('prow')", "isdef('p')"]},
    props=["C20"])

IMVR = "forall(0, %s, lambda t: And_(defined(iMV, t), defined(MV, t), 0 <= iMV[t], iMV[t] < nnz))"
cfn("sparse_image.c:sparse_localmaxlabel",
    lens={"v": "nnz", "i": "nnz", "j": "nnz", "MV": "nnz", "iMV": "nnz", "labels": "nnz"},
    defined={"MV": False, "iMV": False, "labels": False}, outputs={"labels": "0..nnz"}, assigns=["MV", "iMV", "labels"],
    requires=["nnz >= 0"],
    loops={0: [IMVR % "k", "0 <= pp", "pp <= k", "isdef('pp')"],
           1: [IMVR % "k + 1", "1 <= k", "k < nnz", "0 <= pp", "pp <= k", "isdef('pp')", "ir == i[k] - 1", "isdef('ir')"],
           2: [IMVR % "k + 1", "1 <= k", "k < nnz", "0 <= pp", "pp <= k", "isdef('pp')",
                                                    "ir == i[k] - 1", "isdef('ir')"],
           3: [IMVR % "k + 1", "1 <= k", "k < nnz", "0 <= pp", "pp <= k", "isdef('pp')", "pp <= p", "p <= k",
                                           "ir == i[k] - 1", "isdef('ir')"],
           4: [IMVR % "nnz", "0 <= pp", "pp <= k", "isdef('pp')",
                                  "forall(0, k, lambda t: And_(defined(labels, t), -1 <= labels[t], labels[t] <= pp))"],
           5: [IMVR % "nnz", "forall(0, nnz, lambda t: defined(labels, t))"],
           6: [IMVR % "nnz", "forall(0, nnz, lambda t: defined(labels, t))", "0 <= k", "k < nnz", "0 <= p", "p < nnz", "isdef('p')",
                                "0 <= pnext", "isdef('pnext')"],
           7: [IMVR % "nnz", "forall(0, nnz, lambda t: defined(labels, t))", "0 <= k", "k < nnz", "0 <= p", "p < nnz",
                                  "isdef('p')"]},
    ensures=["0 <= result", "result <= nnz"],
    iteration_counters={"pnext++": "counts the steps of the walk `while (iMV[p] != p) p = iMV[p]`; it can only overflow if that walk "
                                   "runs more than 2^31 steps, i.e. does not terminate (termination is not proved)"},
    props=["C20"])

# ---------------------------------------------------------------- sparse connected pixels (row-above pointer walk + disjoint sets)
from . import c_blobs  # noqa  (dset_wf, dset_cnt)
SINV = ["dset_wf(S)", "S[0] <= max_(16384, 2*dset_cnt(S) + 6)", "alive(S)"]
LAB = "forall(0, %s, lambda t: And_(defined(labels, t), 0 <= labels[t], labels[t] <= dset_cnt(S)))"
ZIFF = "forall(0, %s, lambda t: (labels[t] == 0) == (v[t] <= threshold))"
INNER = SINV + ["0 <= k", "k < nnz", "dset_cnt(S) <= k", LAB % "k + 1", "0 <= pp", "pp <= k", "isdef('pp')", "ir == i[k] - 1", "isdef('ir')"] \
    + T("C11", ZIFF % "k", "v[k] > threshold")
cfn("sparse_image.c:sparse_connectedpixels",
    lens={"v": "nnz", "i": "nnz", "j": "nnz", "labels": "nnz"}, defined={"labels": False}, outputs={"labels": "0..nnz"}, assigns=["labels"],
    requires=["nnz >= 0", "nnz <= 2**28"],
    wellformed="at most 2^28 pixels (the label table doubles up to 2^30 entries)",
    loops={0: SINV + ["dset_cnt(S) <= k", LAB % "k", "0 <= pp", "pp <= k", "isdef('pp')"] + T("C11", ZIFF % "k"),
           1: INNER,
           2: INNER,
           3: INNER + ["pp <= p", "p <= k", "isdef('p')"],
           5: ["alive(T)", "len_(T) == dset_cnt(S) + 3", "alive(S)", "dset_wf(S)", "0 <= np", "np <= dset_cnt(S)", "isdef('np')",
               "forall(1, dset_cnt(S) + 1, lambda q: And_(defined(T, q), 1 <= T[q], T[q] <= np))",
               "forall(0, k, lambda t: And_(defined(labels, t), 0 <= labels[t], labels[t] <= np))",
               "forall(k, nnz, lambda t: And_(defined(labels, t), 0 <= labels[t], labels[t] <= dset_cnt(S)))"] + T("C11", ZIFF % "nnz")},
    ensures=["0 <= result", "forall(0, nnz, lambda t: And_(0 <= labels[t], labels[t] <= result))"] + T("C11", ZIFF % "nnz"),
    props=["C11", "C20"])

PZ = "lambda t: (i[t] + 1)*(jmax + 2) + j[t] + 1"
def _cells(n, hi):
    rng = lambda a: "0 <= Z[%s]" % a + ", Z[%s] <= %s" % (a, hi)
    return ("forall(0, %s, lambda t: And_(%s))" % (n, ", ".join(rng(a) for a in
            ("pz(t)", "pz(t) - 1", "pz(t) - (jmax + 2) - 1", "pz(t) - (jmax + 2)", "pz(t) - (jmax + 2) + 1"))))
SPL_IN = ["0 <= k", "k < nnz", "jdim == jmax + 2", "ik == i[k] + 1", "jk == j[k] + 1", "p == ik*jdim + jk", "ir == (ik - 1)*jdim + jk",
          "isdef('ik')", "isdef('jk')", "isdef('p')", "isdef('ir')"]
cfn("sparse_image.c:sparse_connectedpixels_splat",
    lens={"v": "nnz", "i": "nnz", "j": "nnz", "labels": "nnz", "Z": "(imax + 2)*(jmax + 2)"}, assigns=["labels", "Z"],
    requires=["nnz >= 0", "nnz <= 2**28", "imax >= 1", "jmax >= 1", "(imax + 2)*(jmax + 2) <= INT_MAX",
              "forall(0, nnz, lambda t: And_(i[t] < imax, j[t] < jmax))"],
    locals={"pz": PZ},
    wellformed="pixel coordinates inside the declared imax x jmax shape; Z holds (imax+2)*(jmax+2) integers; at most 2^28 pixels",
    loops={0: ["jdim == jmax + 2", "alive(S)", "dset_wf(S)", "dset_cnt(S) == 0", "S[0] == 16384", _cells("k", "0")],
           1: SINV + ["jdim == jmax + 2", "dset_cnt(S) <= k", _cells("nnz", "dset_cnt(S)")],
           4: ["jdim == jmax + 2", "alive(T)", "len_(T) == dset_cnt(S) + 3", "alive(S)", "dset_wf(S)", "0 <= np", "np <= dset_cnt(S)", "isdef('np')",
               "forall(1, dset_cnt(S) + 1, lambda q: And_(defined(T, q), 1 <= T[q], T[q] <= np))", _cells("nnz", "dset_cnt(S)")]},
    ensures=["0 <= result"],
    props=["C11", "C20"])

# ---------------------------------------------------------------- mask -> coordinate lists through per-row counts and their prefix sums
# CR(r) = number of mask pixels in row r (an opaque function of the row, revealed at the row being processed);
# cnt(n, r) = number of mask pixels in row r at columns < n.
MC_LOC = {"cnt": "lambda n, r: countp('mc_cnt', n, lambda q, rr: msk[rr*nf + q] != 0, [r])",
          "M": "macro_fn('mc_M', lambda r, c: ite(msk[r*nf + c] != 0, 1, 0), 2)",
          "CR": "opaque_fn('mc_CR', lambda r: countp('mc_cnt', nf, lambda q, rr: msk[rr*nf + q] != 0, [r]), 'int')"}
MC_NROW_DEF = "forall(0, ns, lambda r: defined(nrow, r))"
MC_ROWS = "forall(0, %s, lambda r: And_(defined(nrow, r), nrow[r] == CR(r), 0 <= nrow[r], nrow[r] <= nf))"
MC_MONO = "forall2(0, %s, lambda a, b: implies(a <= b, nrow[a] <= nrow[b]))"
MC_START = "ite(mi == 0, 0, nrow[max_(mi - 1, 0)])"
# every stored entry is a mask pixel inside the image; entries are strictly sorted row-major (row, then column)
# M(r, c) == 1 iff msk[r*nf + c] != 0: a spec function with one quantified definition keeps the product out of the quantified invariants
MC_VALID = "forall(0, %s, lambda t: And_(defined(i, t), defined(j, t), i[t] < ns, j[t] < nf, M(i[t], j[t]) == 1))"
MC_SORTED = "forall(1, %s, lambda t: Or_(i[t-1] < i[t], And_(i[t-1] == i[t], j[t-1] < j[t])))"
cfn("sparse_image.c:mask_to_coo",
    lens={"msk": "ns*nf", "i": "nnz", "j": "nnz", "nrow": "ns"}, defined={"i": False, "j": False, "nrow": False},
    assigns=["i", "j", "nrow"], locals=MC_LOC,
    requires=["ns*nf <= INT_MAX"],
    wellformed="msk has ns*nf entries, i and j have nnz entries, the work array has ns entries; any ns, nf, nnz (out-of-range values are refused)",
    loops={0: [MC_ROWS % "mi"],
           1: ["0 <= mi", "mi < ns", "defined(nrow, mi)", "nrow[mi] == cnt(mj, mi)", MC_ROWS % "mi"],
           2: [MC_NROW_DEF, "1 <= mi", "mi <= ns",
               "forall(mi, ns, lambda r: And_(nrow[r] == CR(r), 0 <= nrow[r], nrow[r] <= nf))",
               "nrow[0] == CR(0)", "0 <= nrow[0]",
               "forall(1, mi, lambda r: nrow[r] == nrow[r-1] + CR(r))",
               "forall(0, mi, lambda r: And_(0 <= nrow[r], nrow[r] <= (r + 1)*nf))", MC_MONO % "mi"],
           3: [MC_NROW_DEF] + T("C14", MC_VALID % MC_START, MC_SORTED % MC_START, "forall(0, %s, lambda t: i[t] < mi)" % MC_START),
           4: [MC_NROW_DEF, "0 <= mi", "mi < ns", "isdef('idx')", "0 <= mj", "idx == %s + cnt(mj, mi)" % MC_START,
               "nrow[mi] == %s + cnt(nf, mi)" % MC_START, "nrow[mi] <= nnz", "0 <= %s" % MC_START]
              + T("C14", MC_VALID % "idx", MC_SORTED % "idx", "forall(0, %s, lambda t: i[t] < mi)" % MC_START,
                  "forall(%s, idx, lambda t: And_(i[t] == mi, j[t] < mj))" % MC_START)},
    asserts={0: ["nrow[mi] == CR(mi)", "0 <= nrow[mi]", "nrow[mi] <= nf"],
             2: ["nrow[mi] == nrow[mi-1] + CR(mi)", "nrow[mi-1] <= nrow[mi]"],
             "before^:i[idx]=": T("C14", "M(mi, mj) == 1"),
             "before^:if(mi==0)": ["CR(mi) == cnt(nf, mi)", "nrow[mi] == %s + CR(mi)" % MC_START, "nrow[mi] <= nrow[ns-1]", "0 <= %s" % MC_START]},
    ensures=["0 <= result", "result <= 4"]
            + T("C14", "implies(result == 0, And_(%s, %s))" % (MC_VALID % "nnz", MC_SORTED % "nnz"),
                "implies(result == 0, nnz == nrow[ns - 1])",
                "(result == 1) == Or_(ns < 1, ns > 65535)"),
    props=["C14", "C20"])
