"""C02: Bragg / Ewald laws on the python reference functions and on the reference geometry the C kernels are proved equal to."""
import z3
import numpy as np
from verif import smt, symtrace as ST, contract as K
from verif.units import GenUnit, LemmaUnit, BoundedUnit
from verif.tunits import repo_module, trace_obligations
from . import geom as G
from .py_transform import norm_steps

_T = ST.term


def u_bragg_python(ctx):
    """|k|^2 = |g|^2 = 4 sin^2(tth/2)/lambda^2 for compute_k_vectors / compute_g_from_k, all wedge/chi branches, any omega"""
    tr = repo_module("ImageD11.transform")
    def args():
        return (ST.symarray("tth", (1,)), ST.symarray("eta", (1,)), ST.symarray("omega", (1,)), ST.sym("wvln"),
                ST.sym("wedge"), ST.sym("chi")), {}
    def run(tth, eta, om, wvln, wedge, chi):
        k = tr.compute_k_vectors(tth, eta, wvln)
        g = tr.compute_g_from_k(k, om, wedge, chi)
        kk = k[0, 0] * k[0, 0] + k[1, 0] * k[1, 0] + k[2, 0] * k[2, 0]
        gg = g[0, 0] * g[0, 0] + g[1, 0] * g[1, 0] + g[2, 0] * g[2, 0]
        return [kk, g[0, 0], g[1, 0], g[2, 0], gg], k
    holder = {}
    def outputs(res, a, kw):
        holder["k"] = [_T(res[1][i, 0]) for i in range(3)]
        return res[0]
    def spec(a, kw, pc):
        tth, eta, om, wvln, wedge, chi = a
        s = tth[0].radians() / 2
        s = (tth[0].radians() * ST.S(z3.RealVal("1/2"))).sin()
        law = _T(4 * s * s / (wvln * wvln))
        k = holder["k"]
        steps, gs = norm_steps(k, _T(om[0]), _T(wedge), _T(chi))
        holder["steps"] = steps
        return [law, gs[0], gs[1], gs[2], law]
    # the single-rotation norm identities (lemma:rotation_preserves_norm) are instantiated at the traced k
    class Lem(list):
        pass
    def gen():
        K.SINK.reset()
        obs, info = trace_obligations("py:transform.bragg_law", run, [tr], args, spec, prop="C02", outputs=outputs,
                                      requires=[z3.Real("wvln") != 0], chain_order=[0, 1, 2, 3, 4])
        for o in obs:
            if o.name.endswith("out4"):
                o.facts = list(o.facts) + holder.get("steps", [])
                o.nfacts = len(o.facts)
        return obs, info
    return gen()


def l_bragg_spec():
    """reference geometry: |kvec(d) * lambda|^2 == 2 (1 - d_x/|d|), in three steps (u = d/|d| is a unit vector; k.lambda = u - e_x;
    hence the claim).  With cos(tth) = d_x/|d| (T2) and the half angle (T3) this is (2 sin(theta))^2.
    |gvec|^2 == |kvec|^2 by lemma rotation_preserves_norm (so independent of omega, wedge, chi and the omega sign)."""
    K.MODE = "sym"
    K.SINK.reset()
    d = [z3.Real("dx"), z3.Real("dy"), z3.Real("dz")]
    lam = z3.Real("wvln")
    R = smt.sqrt_f(d[0] * d[0] + d[1] * d[1] + d[2] * d[2])
    k = G.kvec(d, lam)
    ax = K.SINK.drain()
    base = [R > 0, R * R == d[0] * d[0] + d[1] * d[1] + d[2] * d[2], lam != 0]
    u = [d[i] / R for i in range(3)]
    e = [1, 0, 0]
    out = [("u_is_unit", base, u[0] * u[0] + u[1] * u[1] + u[2] * u[2] == 1)]
    kl = []
    for i in range(3):
        out.append(("k%d_lambda" % i, base + ax, k[i] * lam == u[i] - e[i]))
        kl.append(k[i] * lam == u[i] - e[i])
    kls = [k[i] * lam for i in range(3)]
    out.append(("kk", [u[0] * u[0] + u[1] * u[1] + u[2] * u[2] == 1] + kl,
                kls[0] * kls[0] + kls[1] * kls[1] + kls[2] * kls[2] == 2 * (1 - u[0])))
    steps, g = norm_steps(k, z3.Real("omega"), z3.Real("wedge"), z3.Real("chi"))
    out.append(("gg", steps + K.SINK.drain(), G.dot3(g, g) == G.dot3(k, k)))
    return out


def l_rotation_about_axis():
    """g(omega + delta) = Rz(delta)^T . g(omega): a change of omega rotates g rigidly about the rotation axis (angle addition T5)"""
    K.MODE = "sym"
    K.SINK.reset()
    t = [z3.Real("t0"), z3.Real("t1"), z3.Real("t2")]
    om, de = z3.Real("omega"), z3.Real("delta")
    g1 = G.rotR(t, om)
    g2 = G.rotR(t, om + de)
    a, b = z3.simplify(G.rad(om)), z3.simplify(G.rad(de))
    ab = z3.simplify(G.rad(om + de))
    T5 = [smt.sin_f(ab) == smt.sin_f(a) * smt.cos_f(b) + smt.cos_f(a) * smt.sin_f(b),
          smt.cos_f(ab) == smt.cos_f(a) * smt.cos_f(b) - smt.sin_f(a) * smt.sin_f(b)]
    cd, sd = G.cosd(de), G.sind(de)
    want = [cd * g1[0] + sd * g1[1], -sd * g1[0] + cd * g1[1], g1[2]]
    return [("g%d" % i, T5 + K.SINK.drain(), g2[i] == want[i]) for i in range(3)]


def b_detector_roundtrip(ctx):
    """bounded: compute_xyz_from_tth_eta(compute_tth_eta(...)) returns the detector coordinates, random tilts/flips/wedge/chi/translation"""
    tr = repo_module("ImageD11.transform")
    rng = np.random.RandomState(ctx.seed)
    n = 300 if ctx.tier == "quick" else 3000
    fails, ev = [], 0
    flips = [(1, 0, 0, 1), (-1, 0, 0, 1), (1, 0, 0, -1), (-1, 0, 0, -1), (0, 1, 1, 0), (0, -1, 1, 0), (0, 1, -1, 0), (0, -1, -1, 0)]
    samples = []
    for it in range(n):
        o11, o12, o21, o22 = flips[it % 8]
        p = dict(y_center=rng.uniform(900, 1100), z_center=rng.uniform(900, 1100), y_size=rng.uniform(40, 60), z_size=rng.uniform(40, 60),
                 distance=rng.uniform(1e5, 3e5), tilt_x=rng.uniform(-.05, .05), tilt_y=rng.uniform(-.05, .05), tilt_z=rng.uniform(-.05, .05),
                 o11=o11, o12=o12, o21=o21, o22=o22, wedge=rng.choice([0., rng.uniform(-5, 5)]), chi=rng.choice([0., rng.uniform(-5, 5)]),
                 # every on/off pattern of the three translation components (the code tests each of them against zero)
                 t_x=(rng.uniform(-300, 300) if (it // 8) & 1 else 0.), t_y=(rng.uniform(-300, 300) if (it // 8) & 2 else 0.),
                 t_z=(rng.uniform(-100, 100) if (it // 8) & 4 else 0.))
        pk = rng.uniform(0, 2048, (2, 7))
        om = rng.uniform(-180, 180, 7)
        tth, eta = tr.compute_tth_eta(pk, omega=om, **p)
        fc, sc = tr.compute_xyz_from_tth_eta(tth, eta, om, **p)
        ev += 1
        err = max(np.abs(fc - pk[1]).max(), np.abs(sc - pk[0]).max())
        if not err < 1e-4:
            fails.append(dict(name="detector-roundtrip", pars={k: float(v) for k, v in p.items()}, err=float(err)))
        if len(samples) < 2:
            samples.append(dict(pars={k: round(float(v), 4) for k, v in p.items()}, max_err_px=float(err)))
    return dict(evaluations=ev, distinct_nontrivial=ev, samples=samples, failures=fails[:5],
                rule="seeded random detector geometries x 8 flip matrices x wedge/chi/translation on-off, 7 peaks each, tolerance 1e-4 pixel")


def b_uncompute(ctx):
    """bounded: both (tth, eta, omega) solutions of uncompute_g_vectors map forward to g; unreachable g are flagged (zeroed)"""
    tr = repo_module("ImageD11.transform")
    fails, ev, nontrivial = [], 0, 0
    m = 9 if ctx.tier == "quick" else 21
    ax = np.linspace(-1.3, 1.3, m)
    g = np.array([(x, y, z) for x in ax for y in ax for z in ax if (x, y, z) != (0, 0, 0)]).T
    samples = []
    for wedge, chi in ((0., 0.), (3., 0.), (0., -4.), (2.5, 1.5), (-6., 7.)):
        wvln = 0.8
        tth, (e1, e2), (o1, o2) = tr.uncompute_g_vectors(g, wvln, wedge=wedge, chi=chi)
        modg = np.sqrt((g * g).sum(axis=0))
        for eta, om in ((e1, o1), (e2, o2)):
            gc = tr.compute_g_vectors(tth, eta, om, wvln, wedge=wedge, chi=chi)
            ok_fwd = np.abs(gc - g).max(axis=0) < 1e-6
            flagged = (eta == 0) & (om == 0)
            # every g is either reproduced or flagged; a g that cannot diffract at all (|g| > 2/lambda) must be flagged
            bad = ~(ok_fwd | flagged) | ((modg > 2 / wvln + 1e-9) & ~flagged & ~np.isnan(tth))
            ev += g.shape[1]
            nontrivial += int(ok_fwd.sum())
            for idx in np.nonzero(bad)[0][:2]:
                fails.append(dict(name="uncompute", g=g[:, idx].tolist(), wedge=wedge, chi=chi))
        if len(samples) < 2:
            samples.append(dict(wedge=wedge, chi=chi, n=int(g.shape[1])))
    return dict(evaluations=ev, distinct_nontrivial=nontrivial, samples=samples, failures=fails[:5],
                rule="g on a %d^3 lattice in [-1.3,1.3]^3 x 5 wedge/chi pairs x both solutions; non-trivial = solution reproduced forward" % m)


def u_xyz_from_tth_eta(ctx):
    """compute_xyz_from_tth_eta against an implicit specification: the detector point (sc, fc) it returns lies on the ray that leaves the grain
    origin in the direction (tth, eta).  compute_xyz_lab and compute_grain_origins (verified under C01) are replaced by symbolic results
    (callee contracts: three points of the detector plane D; the grain origin G, which is 0 for a zero translation).  Steps: sc and fc are
    the two triple products divided by norm; then  xyz x (norm.(dO - G) + Ns.ds + Nf.df) == 0  is a polynomial identity."""
    tr = repo_module("ImageD11.transform")
    D, G = ST.symarray("D", (3, 3)), ST.symarray("G", (3, 1))

    def cross(a, b):
        return [a[1] * b[2] - a[2] * b[1], a[2] * b[0] - a[0] * b[2], a[0] * b[1] - a[1] * b[0]]

    def args():
        return (ST.symarray("tth", (1,)), ST.symarray("eta", (1,)), ST.symarray("om", (1,))), \
            dict(t_x=ST.sym("t_x"), t_y=ST.sym("t_y"), t_z=ST.sym("t_z"), wedge=ST.sym("wedge"), chi=ST.sym("chi"))

    def run(tth, eta, om, **kw):
        fc, sc = tr.compute_xyz_from_tth_eta(tth, eta, om, **kw)
        npm = tr.np
        rtth, reta = npm.radians(tth), npm.radians(eta)
        xyz = [npm.cos(rtth)[0], (-npm.sin(rtth) * npm.sin(reta))[0], (npm.sin(rtth) * npm.cos(reta))[0]]
        ds = [D[i, 0] - D[i, 2] for i in range(3)]
        df = [D[i, 1] - D[i, 2] for i in range(3)]
        w = [D[i, 2] - G[i, 0] for i in range(3)]
        dn = cross(ds, df)
        norm = dn[0] * xyz[0] + dn[1] * xyz[1] + dn[2] * xyz[2]
        if bool(norm == 0):          # ray parallel to the detector plane: the function returns zeros, nothing is claimed
            return [0, 0, 0, 0, 0]
        dfw, wds = cross(df, w), cross(w, ds)
        Ns = dfw[0] * xyz[0] + dfw[1] * xyz[1] + dfw[2] * xyz[2]
        Nf = wds[0] * xyz[0] + wds[1] * xyz[1] + wds[2] * xyz[2]
        c = cross(xyz, [norm * w[i] + Ns * ds[i] + Nf * df[i] for i in range(3)])
        return [sc[0] - Ns / norm, fc[0] - Nf / norm, c[0], c[1], c[2]]
    zero_t = z3.And(z3.Real("t_x") == 0, z3.Real("t_y") == 0, z3.Real("t_z") == 0)
    req = [z3.Implies(zero_t, z3.And(*[ST._t(G[i, 0]) == 0 for i in range(3)]))]
    extra = {"compute_xyz_lab": lambda pks, **k: D, "compute_grain_origins": lambda omega, **k: G}
    return trace_obligations("py:transform.compute_xyz_from_tth_eta", run, [tr], args, lambda a, kw, pc: [0, 0, 0, 0, 0], prop="C02",
                             extra=extra, requires=req, chain_order=[0, 1, 2, 3, 4])


def units():
    return [GenUnit("py:transform.bragg_law", u_bragg_python, "trace"),
            GenUnit("py:transform.compute_xyz_from_tth_eta", u_xyz_from_tth_eta, "trace"),
            LemmaUnit("bragg_reference_geometry", l_bragg_spec),
            LemmaUnit("omega_rotates_g_about_axis", l_rotation_about_axis),
            BoundedUnit("detector-roundtrip", b_detector_roundtrip, "300 (thorough 3000) random geometries"),
            BoundedUnit("uncompute-g-vectors", b_uncompute, "9^3 (thorough 21^3) lattice x 5 wedge/chi pairs")]
