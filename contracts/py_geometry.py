"""Contracts for ImageD11/sinograms/geometry.py (C19): the lab / sample / step / reconstruction conversions are exact
mutual inverses, the in-beam dty makes lab y vanish, sincos and degree variants agree, the dty<->dtyi discretisation
round-trips on integers and the mask helpers are compositions of the above.  Every function is executed symbolically."""
import z3
from verif import smt, symtrace as ST, contract as K
from verif.units import GenUnit
from verif.tunits import repo_module, trace_obligations, flat

_T = ST.term


def _geo():
    return repo_module("ImageD11.sinograms.geometry")


def _sym(*names, sort="real"):
    return [ST.sym(n, sort) for n in names]


def _unit(name, run_builder, args, spec, requires=(), lemmas=()):
    def gen(ctx):
        g = _geo()
        return trace_obligations("py:geometry." + name, run_builder(g), [g], args, spec, prop="C19", requires=requires,
                                 lemmas=lemmas)
    return GenUnit("py:geometry." + name, gen, "trace")


def units():
    U = []
    R = z3.Real
    ystep_ok = [R("ystep") != 0]
    # --- lab <-> sample
    U.append(_unit("lab_to_sample.sample_to_lab",
                   lambda g: (lambda sx, sy, y0, dty, om: g.lab_to_sample(*g.sample_to_lab(sx, sy, y0, dty, om), y0, dty, om)),
                   lambda: (_sym("sx", "sy", "y0", "dty", "omega"), {}), lambda a, kw, pc: [_T(a[0]), _T(a[1])]))
    U.append(_unit("sample_to_lab.lab_to_sample",
                   lambda g: (lambda lx, ly, y0, dty, om: g.sample_to_lab(*g.lab_to_sample(lx, ly, y0, dty, om), y0, dty, om)),
                   lambda: (_sym("lx", "ly", "y0", "dty", "omega"), {}), lambda a, kw, pc: [_T(a[0]), _T(a[1])]))
    U.append(_unit("sincos_variants",
                   lambda g: (lambda sx, sy, y0, dty, om: list(g.sample_to_lab(sx, sy, y0, dty, om)) + list(g.lab_to_sample(sx, sy, y0, dty, om))
                              + [g.dty_values_grain_in_beam(sx, sy, y0, om)]),
                   lambda: (_sym("sx", "sy", "y0", "dty", "omega"), {}),
                   lambda a, kw, pc: (lambda g, s, c: list(g.sample_to_lab_sincos(a[0], a[1], a[2], a[3], s, c))
                                      + list(g.lab_to_sample_sincos(a[0], a[1], a[2], a[3], s, c))
                                      + [g.dty_values_grain_in_beam_sincos(a[0], a[1], a[2], s, c)])(
                       _geo(), a[4].radians().sin(), a[4].radians().cos())))
    # --- sample <-> step <-> recon
    U.append(_unit("step_to_sample.sample_to_step", lambda g: (lambda sx, sy, ys: g.step_to_sample(*g.sample_to_step(sx, sy, ys), ys)),
                   lambda: (_sym("sx", "sy", "ystep"), {}), lambda a, kw, pc: [_T(a[0]), _T(a[1])], requires=ystep_ok))
    U.append(_unit("sample_to_step.step_to_sample", lambda g: (lambda si, sj, ys: g.sample_to_step(*g.step_to_sample(si, sj, ys), ys)),
                   lambda: (_sym("si", "sj", "ystep"), {}), lambda a, kw, pc: [_T(a[0]), _T(a[1])], requires=ystep_ok))
    def shape():
        return [ST.sym("n0", "int"), ST.sym("n1", "int")]
    U.append(_unit("recon_to_step.step_to_recon", lambda g: (lambda si, sj, sh: g.recon_to_step(*g.step_to_recon(si, sj, sh), sh)),
                   lambda: (_sym("si", "sj") + [shape()], {}), lambda a, kw, pc: [_T(a[0]), _T(a[1])]))
    U.append(_unit("step_to_recon.recon_to_step", lambda g: (lambda ri, rj, sh: g.step_to_recon(*g.recon_to_step(ri, rj, sh), sh)),
                   lambda: (_sym("ri", "rj") + [shape()], {}), lambda a, kw, pc: [_T(a[0]), _T(a[1])]))
    U.append(_unit("recon_to_sample.sample_to_recon",
                   lambda g: (lambda sx, sy, sh, ys: g.recon_to_sample(*g.sample_to_recon(sx, sy, sh, ys), sh, ys)),
                   lambda: (_sym("sx", "sy") + [shape()] + _sym("ystep"), {}), lambda a, kw, pc: [_T(a[0]), _T(a[1])], requires=ystep_ok))
    U.append(_unit("sample_to_recon.recon_to_sample",
                   lambda g: (lambda ri, rj, sh, ys: g.sample_to_recon(*g.recon_to_sample(ri, rj, sh, ys), sh, ys)),
                   lambda: (_sym("ri", "rj") + [shape()] + _sym("ystep"), {}), lambda a, kw, pc: [_T(a[0]), _T(a[1])], requires=ystep_ok))
    U.append(_unit("step_to_lab.lab_to_step",
                   lambda g: (lambda lx, ly, y0, dty, om, ys: g.step_to_lab(*g.lab_to_step(lx, ly, y0, dty, om, ys), y0, dty, om, ys)),
                   lambda: (_sym("lx", "ly", "y0", "dty", "omega", "ystep"), {}), lambda a, kw, pc: [_T(a[0]), _T(a[1])], requires=ystep_ok))
    U.append(_unit("lab_to_step.step_to_lab",
                   lambda g: (lambda si, sj, y0, dty, om, ys: g.lab_to_step(*g.step_to_lab(si, sj, y0, dty, om, ys), y0, dty, om, ys)),
                   lambda: (_sym("si", "sj", "y0", "dty", "omega", "ystep"), {}), lambda a, kw, pc: [_T(a[0]), _T(a[1])], requires=ystep_ok))
    U.append(_unit("recon_to_lab.lab_to_recon",
                   lambda g: (lambda lx, ly, y0, dty, om, sh, ys: g.recon_to_lab(*g.lab_to_recon(lx, ly, y0, dty, om, sh, ys), y0, dty, om, sh, ys)),
                   lambda: (_sym("lx", "ly", "y0", "dty", "omega") + [shape()] + _sym("ystep"), {}),
                   lambda a, kw, pc: [_T(a[0]), _T(a[1])], requires=ystep_ok))
    U.append(_unit("lab_to_recon.recon_to_lab",
                   lambda g: (lambda ri, rj, y0, dty, om, sh, ys: g.lab_to_recon(*g.recon_to_lab(ri, rj, y0, dty, om, sh, ys), y0, dty, om, sh, ys)),
                   lambda: (_sym("ri", "rj", "y0", "dty", "omega") + [shape()] + _sym("ystep"), {}),
                   lambda a, kw, pc: [_T(a[0]), _T(a[1])], requires=ystep_ok))
    # --- the dty that brings a sample point into the beam makes lab y vanish
    U.append(_unit("in_beam_ly_zero",
                   lambda g: (lambda sx, sy, y0, om: [g.sample_to_lab(sx, sy, y0, g.dty_values_grain_in_beam(sx, sy, y0, om), om)[1],
                                                      g.sample_to_lab(sx, sy, y0, g.x_y_y0_omega_to_dty(om, sx, sy, y0), om)[1]]),
                   lambda: (_sym("sx", "sy", "y0", "omega"), {}), lambda a, kw, pc: [0, 0]))
    # --- discretisation round trip on integers
    U.append(_unit("dty_to_dtyi.dtyi_to_dty", lambda g: (lambda i, ys, ymin: g.dty_to_dtyi(g.dtyi_to_dty(i, ys, ymin), ys, ymin)),
                   lambda: ([ST.sym("i", "int")] + _sym("ystep", "ymin"), {}), lambda a, kw, pc: [_T(a[0])], requires=ystep_ok))
    # --- compositions (argument wiring)
    def comp(g, si, sj, ri, rj, om, y0, sh, ys, ymin, dtyi):
        s, c = om.radians().sin(), om.radians().cos()
        return [g.step_omega_to_dty(si, sj, om, y0, ys), g.step_omega_to_dtyi(si, sj, om, y0, ys, ymin),
                g.recon_omega_to_dty(ri, rj, om, y0, sh, ys), g.recon_omega_to_dtyi(ri, rj, om, y0, sh, ys, ymin),
                g.dtyimask_from_sample(si, sj, om, dtyi, y0, ys, ymin), g.dtyimask_from_sample_sincos(si, sj, s, c, dtyi, y0, ys, ymin),
                g.dtyimask_from_step(si, sj, om, dtyi, y0, ys, ymin), g.dtyimask_from_step_sincos(si, sj, s, c, dtyi, y0, ys, ymin),
                g.dtyimask_from_recon(ri, rj, om, dtyi, y0, ys, ymin, sh), g.dtyimask_from_recon_sincos(ri, rj, s, c, dtyi, y0, ys, ymin, sh)]
    def comp_spec(a, kw, pc):
        g = _geo()
        si, sj, ri, rj, om, y0, sh, ys, ymin, dtyi = a
        def inbeam(x, y):
            return g.dty_values_grain_in_beam(x, y, y0, om)
        def disc(d):
            return g.dty_to_dtyi(d, ys, ymin)
        sxs, sys_ = g.step_to_sample(si, sj, ys)
        sxr, syr = g.recon_to_sample(ri, rj, sh, ys)
        return [inbeam(sxs, sys_), disc(inbeam(sxs, sys_)), inbeam(sxr, syr), disc(inbeam(sxr, syr)),
                disc(inbeam(si, sj)) == dtyi, disc(inbeam(si, sj)) == dtyi,
                disc(inbeam(sxs, sys_)) == dtyi, disc(inbeam(sxs, sys_)) == dtyi,
                disc(inbeam(sxr, syr)) == dtyi, disc(inbeam(sxr, syr)) == dtyi]
    U.append(_unit("compositions", lambda g: (lambda *a: comp(g, *a)),
                   lambda: (_sym("si", "sj", "ri", "rj", "omega", "y0") + [shape()] + _sym("ystep", "ymin") + [ST.sym("dtyi", "int")], {}),
                   comp_spec, requires=ystep_ok))
    # --- sinogram shift / pad and the numba voxel selector
    U.append(_unit("sino_shift_and_pad", lambda g: (lambda y0, ny, ymin, ys: [g.sino_shift_and_pad(y0, ny, ymin, ys)[0]]),
                   lambda: (_sym("y0") + [ST.sym("ny", "int")] + _sym("ymin", "ystep"), {}),
                   lambda a, kw, pc: [_T(a[1]) / 2 - (_T(a[0]) - _T(a[2])) / _T(a[3])], requires=ystep_ok))
    # the pad returned with the shift: the smallest integer >= 2|shift|, plus one (enough to bring the whole scanned disc into the frame)
    def pad_spec(a, kw, pc):
        sh = _T(a[1]) / 2 - (_T(a[0]) - _T(a[2])) / _T(a[3])
        two = z3.If(sh >= 0, 2 * sh, -2 * sh)
        return [-z3.ToInt(-two) + 1]
    U.append(_unit("sino_shift_and_pad[pad]", lambda g: (lambda y0, ny, ymin, ys: [g.sino_shift_and_pad(y0, ny, ymin, ys)[1]]),
                   lambda: (_sym("y0") + [ST.sym("ny", "int")] + _sym("ymin", "ystep"), {}), pad_spec, requires=ystep_ok))
    return U


def pbp_units():
    def gen(ctx):
        pbp = repo_module("ImageD11.sinograms.point_by_point")
        g = _geo()
        fn = pbp.get_voxel_idx.py_func
        def run(y0, x, y, s, c, dty, ys):
            import numpy as np
            # ydist (second result) before thresholding
            return [fn(y0, x, y, ST.lift([s]), ST.lift([c]), ST.lift([dty]), ys)[1][0]]
        def args():
            return _sym("y0", "xi0", "yi0", "sinomega", "cosomega", "dty", "ystep"), {}
        def spec(a, kw, pc):
            d = g.dty_values_grain_in_beam_sincos(a[1], a[2], a[0], a[3], a[4]) - a[5]
            return [abs(d)]
        class NP2(ST.NPShim):
            def where(self, c, a=None, b=None):
                return (ST._np.zeros(0, int),)
        return trace_obligations("py:point_by_point.get_voxel_idx", run, [pbp], args, spec, prop="C19")
    return [GenUnit("py:point_by_point.get_voxel_idx", gen, "trace")]
