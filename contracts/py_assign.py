"""C07, python glue: bounded stand-in for indexer.fight_over_peaks (labels, stored errors, per-grain counts) on simulated grains with twins and
junk peaks, over repeated calls on one indexer object, grain orders and thread counts.  The C kernel itself is proved (closest.c:score_and_assign)."""
import contextlib
import io
import numpy as np
from verif.tunits import repo_module


def rot(rng):
    q = rng.normal(size=4)
    q /= np.linalg.norm(q)
    a, b, c, d = q
    return np.array([[a*a+b*b-c*c-d*d, 2*(b*c-a*d), 2*(b*d+a*c)], [2*(b*c+a*d), a*a-b*b+c*c-d*d, 2*(c*d-a*b)],
                     [2*(b*d-a*c), 2*(c*d+a*b), a*a-b*b-c*c+d*d]])


def reference(ubis, gv, tol):
    """label = index of the grain with the smallest squared hkl error among those below tol^2 (ties: undecided -> None), error, histogram"""
    err = np.empty((len(ubis), len(gv)))
    for k, u in enumerate(ubis):
        h = u.dot(gv.T)
        d = h - np.round(h)
        err[k] = (d * d).sum(axis=0)
    best = err.argmin(axis=0)
    emin = err.min(axis=0)
    lab = np.where(emin < tol * tol, best, -1)
    srt = np.sort(err, axis=0)
    tie = (srt[1] - srt[0] < 1e-12) & (emin < tol * tol) if len(ubis) > 1 else np.zeros(len(gv), bool)
    return lab, emin, tie


def bounded(ctx):
    from verif import extbuild
    extbuild.ensure_current()
    uc_mod = repo_module("ImageD11.unitcell")
    ix_mod = repo_module("ImageD11.indexing")
    cI = repo_module("ImageD11.cImageD11")
    rng = np.random.RandomState(ctx.seed)
    fails, ev, samples = [], 0, []
    uc = uc_mod.unitcell([4.04, 4.04, 4.04, 90, 90, 90], "F")
    h = np.array([x[1] for x in uc.gethkls(1.1)], float)
    tw = np.array([[-1, 2, 2], [2, -1, 2], [2, 2, -1]]) / 3.0          # 60 degrees about [111]: a twin sharing a third of its reflections
    tol = 0.05
    for ng in (1, 2, 5) + ((12, 50) if ctx.tier == "thorough" else ()):
        Us = [rot(rng) for _ in range(ng)]
        if ng >= 2:
            Us[1] = Us[0].dot(tw)
        UBs = [U.dot(uc.B) for U in Us]
        gv = np.concatenate([UB.dot(h.T).T for UB in UBs] + [rng.uniform(-1, 1, (300, 3))])
        gv = gv + rng.normal(scale=2e-4, size=gv.shape)
        gv = np.ascontiguousarray(gv[rng.permutation(len(gv))])
        ubis = [np.linalg.inv(UB) for UB in UBs]
        with contextlib.redirect_stdout(io.StringIO()), contextlib.redirect_stderr(io.StringIO()):
            ix = ix_mod.indexer(unitcell=uc, gv=gv, wavelength=0.3, hkl_tol=tol)

        def check(order, what, threads):
            nonlocal ev
            cI.cimaged11_omp_set_num_threads(threads)
            ix.ubis = [ubis[k].copy() for k in order]
            with contextlib.redirect_stdout(io.StringIO()):
                ix.fight_over_peaks()
            ev += 1
            lab, emin, tie = reference(ix.ubis, gv, tol)
            ga = np.asarray(ix.ga)
            bad = (ga != lab) & ~tie
            assigned = lab >= 0
            problems = []
            if bad.any():
                problems.append("%d of %d peaks do not carry the label of the best-fitting grain" % (int(bad.sum()), len(gv)))
            if not np.allclose(np.asarray(ix.drlv2)[assigned], emin[assigned], rtol=1e-9, atol=1e-15):
                problems.append("stored error differs from the minimal hkl error")
            hist = np.bincount(ga[ga >= 0], minlength=len(order))
            if not np.array_equal(np.asarray(ix.gas), hist):
                problems.append("per-grain counts differ from the histogram of the labels")
            for pr in problems:
                if len(fails) < 8:
                    fails.append(dict(name="fight_over_peaks (%s): %s" % (what, pr), grains=ng, threads=threads, order=list(order)))
        # getind: the peaks one orientation indexes within tolerance (also with caller supplied scratch buffers holding old content)
        scratch_d, scratch_l = np.full(len(gv), 0.123), np.full(len(gv), 7, np.int32)
        for k, u in enumerate(ubis[:3]):
            hk = u.dot(gv.T)
            want = ((hk - np.round(hk)) ** 2).sum(axis=0) < tol * tol
            for args in ((), (scratch_d, scratch_l)):
                got = np.asarray(ix.getind(u, None, *args)) if args else np.asarray(ix.getind(u))
                ev += 1
                if not np.array_equal(got, want) and len(fails) < 8:
                    fails.append(dict(name="getind: the returned peak set differs from the peaks within hkl_tol", grain=k, grains=ng,
                                      scratch=bool(args), differing=int((got != want).sum())))
        base = list(range(ng))
        for threads in (1, 3, 16):
            check(base, "fresh indexer / first call", threads)
            check(base, "same grains again on the same indexer", threads)
            check(base[::-1], "grains in reversed order on the same indexer", threads)
            if ng > 1:
                check(base[1:], "one grain removed on the same indexer", threads)
                check(list(rng.permutation(ng)), "grains in random order on the same indexer", threads)
        if len(samples) < 3:
            samples.append(dict(grains=ng, peaks=len(gv)))
    cI.cimaged11_omp_set_num_threads(16)
    return dict(evaluations=ev, distinct_nontrivial=ev, samples=samples, failures=fails,
                rule="cubic F grains (the second a 60 degree [111] twin of the first) + 300 junk peaks, noise 2e-4, hkl_tol 0.05; 1, 2, 5 (thorough 12, 50) grains "
                     "x {first call, repeated call, reversed, one grain removed, random order} on one indexer object x threads {1, 3, 16}")
