"""Contracts for /repo/src/connectedpixels.c (C11, C12, C20)."""
from verif.contract import cfn
from . import c_blobs  # noqa


def T(tag, *xs):
    return [(tag, x) for x in xs]


SINV = ["dset_wf(S)", "S[0] <= max_(16384, 2*dset_cnt(S) + 6)"]


def proc(n, hi="dset_cnt(S)"):
    return ["forall(0, %s, lambda p: And_(defined(labels, p), 0 <= labels[p], labels[p] <= %s))" % (n, hi)]


def zero_iff(n):
    return T("C11", "forall(0, %s, lambda p: (labels[p] == 0) == (data[p] <= threshold))" % n)


cfn("connectedpixels.c:connectedpixels",
    lens={"data": "ns*nf", "labels": "ns*nf"}, defined={"labels": False}, outputs={"labels": "0..ns*nf"}, assigns=["labels"],
    requires=["ns >= 1", "nf >= 2", "ns*nf <= 2**28"],
    wellformed="image of at least 1x2 pixels (the property quantifies from 2x2) with at most 2^28 pixels; labels has the shape of data",
    loops={"for(j=1;j<nf;j++)": SINV + ["dset_cnt(S) <= j"] + proc("j") + zero_iff("j"),
           "for(i=1;i<ns;i++)": SINV + ["dset_cnt(S) <= i*nf"] + proc("i*nf") + zero_iff("i*nf"),
           "for(j=1;j<nf-1;j++)": SINV + ["ir == i*nf", "1 <= i", "i < ns", "dset_cnt(S) <= ir + j"] + proc("ir + j") + zero_iff("ir + j"),
           "for(i=0;i<ns;i++)": ["alive(T)", "len_(T) == dset_cnt(S) + 3", "alive(S)", "dset_wf(S)", "0 <= np", "np <= dset_cnt(S)", "isdef('np')",
               "forall(1, dset_cnt(S) + 1, lambda q: And_(defined(T, q), 1 <= T[q], T[q] <= np))",
               "forall(0, i*nf, lambda p: And_(defined(labels, p), 0 <= labels[p], labels[p] <= np))",
               "forall(i*nf, ns*nf, lambda p: And_(defined(labels, p), 0 <= labels[p], labels[p] <= dset_cnt(S)))"]
              + T("C11", "forall(0, ns*nf, lambda p: (labels[p] == 0) == (data[p] <= threshold))"),
           "for(j=0;j<nf;j++)": ["alive(T)", "len_(T) == dset_cnt(S) + 3", "alive(S)", "dset_wf(S)", "0 <= i", "i < ns", "0 <= np", "np <= dset_cnt(S)",
               "forall(1, dset_cnt(S) + 1, lambda q: And_(defined(T, q), 1 <= T[q], T[q] <= np))",
               "forall(0, i*nf + j, lambda p: And_(defined(labels, p), 0 <= labels[p], labels[p] <= np))",
               "forall(i*nf + j, ns*nf, lambda p: And_(defined(labels, p), 0 <= labels[p], labels[p] <= dset_cnt(S)))"]
              + T("C11", "forall(0, ns*nf, lambda p: (labels[p] == 0) == (data[p] <= threshold))")},
    ensures=["0 <= result", "forall(0, ns*nf, lambda p: And_(0 <= labels[p], labels[p] <= result))"]
            + T("C11", "forall(0, ns*nf, lambda p: (labels[p] == 0) == (data[p] <= threshold))"),
    props=["C11", "C20"])

# blobproperties: every sum accumulator of an arbitrary (ghost) label k0 is the double sum over rows and columns of the pixels carrying
# that label.  k0 is a ghost constant, so the clauses hold for every label; inner sums are parametric in the row.
BP_ACC = [("s_1", "1"), ("s_I", "I"), ("s_I2", "I*I"), ("s_fI", "f*I"), ("s_ffI", "f*f*I"), ("s_sI", "s*I"), ("s_ssI", "s*s*I"),
          ("s_sfI", "s*f*I"), ("s_oI", "o*I"), ("s_ooI", "o*o*I"), ("s_soI", "s*o*I"), ("s_foI", "f*o*I")]
BP_LOC = {"brow": "(k0 - 1)*NPROPERTY"}
for _n, _e in BP_ACC:
    # contribution of pixel (s, f) with I = data[s*nf + f], o = omega
    _c = "(lambda s, f: (lambda I, o: ite(labels[s*nf + f] == k0, real(%s), real(0)))(data[s*nf + f], omega))" % _e
    BP_LOC["in_" + _n] = "lambda n, r: rsump('bp_in_%s', n, lambda q, rr: %s(rr, q), [r], 0, 'real')" % (_n, _c)
    BP_LOC["all_" + _n] = "lambda n: rsum('bp_all_%s', n, lambda r: in_%s(nf, r), 0, 'real')" % (_n, _n)
cfn("connectedpixels.c:blobproperties",
    lens={"data": "ns*nf", "labels": "ns*nf", "res": "npk*NPROPERTY"}, defined={"res": False}, ghosts=["k0"],
    outputs={"res": "0..npk*NPROPERTY"}, assigns=["res"], locals=BP_LOC,
    requires=["ns >= 0", "nf >= 0", "ns < INT_MAX", "nf < INT_MAX", "ns*nf <= INT_MAX", "npk >= 0", "npk*NPROPERTY <= INT_MAX"]
             + T("C12", "1 <= k0", "k0 <= npk"),
    loops={0: ["forall(0, i*NPROPERTY, lambda q: defined(res, q))"]
              + T("C12", "implies(k0 - 1 < i, And_(%s))" % ", ".join("res[brow + %s] == 0" % n for n, _ in BP_ACC)),
           2: ["forall(0, npk*NPROPERTY, lambda q: defined(res, q))", "0 <= bad", "bad <= i*nf", "isdef('bad')"]
              + T("C12", *["res[brow + %s] == all_%s(i)" % (n, n) for n, _ in BP_ACC]),
           3: ["forall(0, npk*NPROPERTY, lambda q: defined(res, q))", "0 <= i", "i < ns", "0 <= bad", "bad <= i*nf + j", "isdef('bad')"]
              + T("C12", *["res[brow + %s] == all_%s(i) + in_%s(j, i)" % (n, n, n) for n, _ in BP_ACC])},
    ensures=T("C12", *["res[brow + %s] == all_%s(ns)" % (n, n) for n, _ in BP_ACC]),
    props=["C12", "C20"])

cfn("connectedpixels.c:blob_moments", lens={"res": "np*NPROPERTY"}, assigns=["res"],
    requires=["np >= 0", "np*NPROPERTY <= INT_MAX"], props=["C12", "C20"])

cfn("connectedpixels.c:boundscheck", requires=["0 <= jpk", "jpk < n2", "0 <= ipk", "ipk < n1"], props=["C20"])

CLEANREQ = ["ns >= 2", "nf >= 2", "ns*nf <= INT_MAX", "forall(0, ns*nf, lambda q: And_(msk[q] >= 0, msk[q] <= 1))"]
cfn("connectedpixels.c:clean_mask", lens={"msk": "ns*nf", "ret": "ns*nf"}, defined={"ret": False}, outputs={"ret": "0..ns*nf"},
    assigns=["ret"], requires=CLEANREQ,
    wellformed="mask of 0/1 values, at least 2x2 (the row above/below the first/last row is read unconditionally)",
    loops={0: ["forall(0, i, lambda q: And_(defined(ret, q), 0 <= ret[q], ret[q] <= 1))"],
           1: ["forall(0, ns*nf, lambda q: And_(defined(ret, q), 0 <= ret[q], ret[q] <= 1))", "i == 0", "0 <= npx", "npx <= j", "isdef('npx')"],
           2: ["forall(0, ns*nf, lambda q: And_(defined(ret, q), 0 <= ret[q], ret[q] <= 1))", "0 <= npx", "npx <= i*nf", "isdef('npx')"],
           3: ["forall(0, ns*nf, lambda q: And_(defined(ret, q), 0 <= ret[q], ret[q] <= 1))", "1 <= i", "i < ns - 1", "0 <= npx",
               "npx <= i*nf + j", "isdef('npx')"],
           4: ["forall(0, ns*nf, lambda q: And_(defined(ret, q), 0 <= ret[q], ret[q] <= 1))", "i == ns - 1", "0 <= npx",
               "npx <= (ns-1)*nf + j", "isdef('npx')"]},
    props=["C20"])

cfn("connectedpixels.c:make_clean_mask", lens={"img": "ns*nf", "msk": "ns*nf", "ret": "ns*nf"},
    defined={"msk": False, "ret": False}, outputs={"ret": "0..ns*nf", "msk": "0..ns*nf"}, assigns=["msk", "ret"],
    requires=["ns >= 2", "nf >= 2", "ns*nf <= INT_MAX"],
    loops={0: ["forall(0, i, lambda q: And_(defined(msk, q), 0 <= msk[q], msk[q] <= 1))"]},
    props=["C20"])
