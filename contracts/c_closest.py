"""Contracts for /repo/src/closest.c  (C06, C07, C20).

Clauses written as plain strings are structural / safety clauses (needed for C20 and used everywhere);
clauses written as (property, text) are functional and belong to that property only.
"""
from verif.contract import cfn
from . import specs  # noqa


def T(tag, *xs):
    return [(tag, x) for x in xs]


# |ubi.g| <= 2^51 : the domain on which the MAGIC rounding idiom equals round-half-even (lemma rne_magic)
RNG = ["forall(0, ng, lambda q: And_(*[And_(hkl(ubi, gv, q, r) <= 2**51, hkl(ubi, gv, q, r) >= -2**51) for r in range(3)]))"]
R9 = "[(i, j) for i in range(3) for j in range(3)]"
# makes the definition of hkl(ubi, gv, k, .) available at the loop's current peak (needed for the rounding-range obligations)
REV = "reveal(*[hkl(ubi, gv, k, r) for r in range(3)])"

cfn("closest.c:conv_double_to_int_safe",
    ensures=["result == floor(x + 0.5)"], props=["C06"])

cfn("closest.c:inverse3x3", lens={"H": 3},
    assigns=["H"],
    locals={"det": "det3(old.H)"},
    ensures=T("C06", "(det != 0) == (result == 0)", "(det == 0) == (result == -1)",
              "implies(det == 0, And_(*[H[i][j] == old.H[i][j] for i, j in %s]))" % R9,
              "implies(det != 0, And_(*[H[i][j] == adj3(old.H, i, j) / det for i, j in %s]))" % R9,
              *["implies(det != 0, H[%d][%d] * det == adj3(old.H, %d, %d))" % (i, j, i, j)
                for i in range(3) for j in range(3)]),
    props=["C06"])

cfn("closest.c:verify_rounding", rne="exact",
    requires=["n >= -2**30", "n <= 2**30"],
    ensures=T("C06", "result == 0"), props=["C06"])

SEL = "lambda q: dspec(ubi, gv, q) < tol*tol"
cfn("closest.c:score", lens={"ubi": 3, "gv": "ng"},
    requires=["ng >= 0"] + RNG,
    loops={0: T("C06", "n == count('nsel', k, %s)" % SEL) + ["0 <= n <= k", REV]},
    ensures=T("C06", "result == count('nsel', ng, %s)" % SEL),
    props=["C06"])

# ---- score_and_refine: n, mean drlv2, R = sum g h^T, H = sum h h^T over the selected peaks, ubi' = (R H^-1)^-1
SELO = "lambda q: dspec(old.ubi, gv, q) < tol*tol"


def Rsum(i, j, n, sel="dspec(old.ubi, gv, q) < tol*tol"):
    return "rsum('R%d%d', %s, lambda q: ite(%s, ihkl(old.ubi, gv, q, %d)*gv[q][%d], 0), 0, 'real')" % (i, j, n, sel, j, i)


def Hsum(i, j, n, sel="dspec(old.ubi, gv, q) < tol*tol"):
    return "rsum('H%d%d', %s, lambda q: ite(%s, ihkl(old.ubi, gv, q, %d)*ihkl(old.ubi, gv, q, %d), 0), 0, 'real')" % (i, j, n, sel, j, i)


def mat(f, n, sel):
    return "Mat([%s])" % ",".join("[%s]" % ",".join(f(i, j, n, sel) for j in range(3)) for i in range(3))


def refine_contract(key, sel, loopkey, extra_lens, extra_inv, count_name, npk_out, sum_out, pre=()):
    SUMD = "rsum('sumd', %%s, lambda q: ite(%s, dspec(old.ubi, gv, q), 0), 0, 'real')" % sel
    CNT = "count('%s', %%s, lambda q: %s)" % (count_name, sel)
    lens = {"ubi": 3, "gv": "ng", npk_out: 1, sum_out: 1}
    lens.update(extra_lens)
    cfn(key, lens=lens,
        defined={npk_out: False, sum_out: False},
        outputs={npk_out: "0..1", sum_out: "0..1"},
        assigns=["ubi", npk_out, sum_out],
        requires=["ng >= 0"] + RNG + list(pre),
        loops={loopkey: ["0 <= n <= k", REV, "isdef('n')", "isdef('%s')" % extra_inv["sumvar"],
                         "And_(*[And_(defined(R[i], j), defined(H[i], j)) for i, j in %s])" % R9]
               + extra_inv["safety"]
               + T("C06", "n == " + CNT % "k",
                   "%s == " % extra_inv["sumvar"] + SUMD % "k",
                   "implies(n == 0, %s == 0)" % extra_inv["sumvar"],
                   "And_(*[ubi[i][j] == old.ubi[i][j] for i, j in %s])" % R9,
                   *(["R[%d][%d] == %s" % (i, j, Rsum(i, j, "k", sel)) for i in range(3) for j in range(3)]
                     + ["H[%d][%d] == %s" % (i, j, Hsum(i, j, "k", sel)) for i in range(3) for j in range(3)]))},
        locals={"Rn": mat(Rsum, "ng", sel), "Hn": mat(Hsum, "ng", sel), "npk_spec": CNT % "ng"},
        ensures=T("C06",
                  "%s[0] == npk_spec" % npk_out,
                  "%s[0] == ite(npk_spec > 0, %s / npk_spec, 0)" % (sum_out, SUMD % "ng"),
                  # singular normal equations: input returned unchanged
                  "implies(det3(Hn) == 0, And_(*[ubi[i][j] == old.ubi[i][j] for i, j in %s]))" % R9,
                  "implies(And_(det3(Hn) != 0, det3(matmul3(Rn, inv3(Hn))) == 0),"
                  " And_(*[ubi[i][j] == old.ubi[i][j] for i, j in %s]))" % R9,
                  # otherwise ubi' = inverse(UB), UB = R . H^-1  (inverse by the adjugate formula)
                  "implies(And_(det3(Hn) != 0, det3(matmul3(Rn, inv3(Hn))) != 0),"
                  " And_(*[ubi[i][j] == inv3(matmul3(Rn, inv3(Hn)))[i][j] for i, j in %s]))" % R9),
        props=["C06"])


KLOOP = "for(k=0;k<ng;k++)"
refine_contract("closest.c:score_and_refine", "dspec(old.ubi, gv, q) < tol*tol", KLOOP, {},
                dict(sumvar="sumdrlv2",
                     safety=["And_(*[And_(defined(UB[i], j), UB[i][j] == 0) for i, j in %s])" % R9]),
                "nsel", "n_arg", "sumdrlv2_arg")

# refine_assigned: the same least squares over the peaks carrying `label`
refine_contract("closest.c:refine_assigned", "labels[q] == label", KLOOP, {"labels": "ng"},
                dict(sumvar="sumsqtot",
                     safety=["And_(*[And_(defined(UB[i], j), UB[i][j] == 0) for i, j in %s])" % R9]),
                "nlab", "npk", "sumdrlv2")

# ---- score_and_assign (C07)
TAKE = "lambda q: And_(dspec(ubi, gv, q) < tol*tol, dspec(ubi, gv, q) < old.drlv2[q])"
cfn("closest.c:score_and_assign", lens={"ubi": 3, "gv": "ng", "drlv2": "ng", "labels": "ng"},
    assigns=["drlv2", "labels"],
    requires=["ng >= 0"] + RNG,
    locals={"take": TAKE},
    loops={0: ["0 <= n <= k", REV] + T("C07",
               "n == count('ntake', k, take)",
               "forall(0, k, lambda q: implies(take(q), And_(labels[q] == label, drlv2[q] == dspec(ubi, gv, q))))",
               "forall(0, k, lambda q: implies(Not_(take(q)), And_(drlv2[q] == old.drlv2[q],"
               "     labels[q] == ite(old.labels[q] == label, -1, old.labels[q]))))",
               "forall(k, ng, lambda q: And_(drlv2[q] == old.drlv2[q], labels[q] == old.labels[q]))")},
    ensures=T("C07", "result == count('ntake', ng, take)",
              "forall(0, ng, lambda q: implies(take(q), And_(labels[q] == label, drlv2[q] == dspec(ubi, gv, q))))",
              "forall(0, ng, lambda q: implies(Not_(take(q)), And_(drlv2[q] == old.drlv2[q],"
              "     labels[q] == ite(old.labels[q] == label, -1, old.labels[q]))))"),
    props=["C07"])

# ---- safety-only kernels (C20)
cfn("closest.c:closest_vec", lens={"x": "nv*dim", "closest": "nv"},
    defined={"closest": False}, outputs={"closest": "0..nv"}, assigns=["closest"],
    requires=["nv >= 0", "dim >= 0", "nv*dim <= INT_MAX"],
    loops={0: ["forall(0, i, lambda q: defined(closest, q))"],
           1: ["0 <= i < nv", "0 <= j < nv"],
           2: ["0 <= i < nv", "0 <= ib < nv"],
           3: ["0 <= i < nv", "0 <= j < nv"]},
    wellformed="x is (nv,dim) C-contiguous double, ic has nv entries; nv*dim fits an int", props=["C20"])

cfn("closest.c:closest", lens={"x": "nx", "v": "nv", "ribest": 1, "rbest": 1},
    defined={"ribest": False, "rbest": False}, outputs={"ribest": "0..1", "rbest": "0..1"},
    assigns=["ribest", "rbest"], requires=["nx >= 0", "nv >= 0"],
    loops={1: ["0 <= i < nx"]}, props=["C20"])

for nm in ("put_incr64", "put_incr32"):
    cfn("closest.c:" + nm, lens={"data": "m", "ind": "n", "vals": "n"}, assigns=["data"],
        requires=["n >= 0", "m >= 0",
                  # with boundscheck == 0 the caller promises valid indices (documented: "boundscheck" option)
                  "implies(boundscheck == 0, forall(0, n, lambda q: And_(ind[q] >= 0, ind[q] < m)))"],
        wellformed="boundscheck=0 requires 0 <= ind[k] < len(data)", props=["C20"])

cfn("closest.c:cluster1d", lens={"ar": "n", "order": "n", "nclusters": 1, "ids": "n", "avgs": "n"},
    defined={"nclusters": False, "ids": False, "avgs": False},
    outputs={"nclusters": "0..1", "ids": "0..n"}, assigns=["nclusters", "ids", "avgs"],
    requires=["n >= 1", "forall(0, n, lambda q: And_(order[q] >= 0, order[q] < n))"],
    loops={0: ["forall(0, i, lambda q: And_(defined(ids, q), ids[q] >= 0, ids[q] <= q))",
               "forall(0, i, lambda q: implies(q <= ids[i-1], defined(avgs, q)))", "ncl >= 1", "ncl <= i", "isdef('ncl')"]},
    wellformed="n >= 1 (the kernel reads ar[order[0]] unconditionally); order is a permutation of 0..n-1",
    props=["C20"])

cfn("closest.c:score_gvec_z",
    lens={"ubi": 3, "ub": 3, "gv": "n", "g0": "n", "g1": "n", "g2": "n", "e": "n"},
    defined={"e": False}, outputs={"e": "0..n"}, assigns=["g0", "g1", "g2", "e"],
    requires=["n >= 0",
              "forall(0, n, lambda q: And_(*[And_(hkl(ubi, gv, q, r) <= 2**51, hkl(ubi, gv, q, r) >= -2**51) for r in range(3)]))"],
    loops={0: ["forall(0, i, lambda q: defined(e, q))",
               "reveal(*[hkl(ubi, gv, i, r) for r in range(3)])"]},
    props=["C20"])

for nm in ("misori_cubic", "misori_orthorhombic", "misori_tetragonal", "misori_monoclinic"):
    cfn("closest.c:" + nm, lens={"u1": 3, "u2": 3}, props=["C20"])

cfn("closest.c:count_shared", lens={"pi": "ni", "pj": "nj"},
    requires=["ni >= 0", "nj >= 0"],
    loops={0: ["0 <= i <= ni", "0 <= j <= nj", "0 <= c <= i"]},
    props=["C20"])
