"""Contracts for /repo/src/closest.c  (C06, C07, C20)."""
from verif.contract import cfn
from . import specs  # noqa

# |ubi.g| <= 2^51 : the domain on which the MAGIC rounding idiom equals round-half-even (lemma rne_magic)
RNG = ["forall(0, ng, lambda q: And_(*[And_(hkl(ubi, gv, q, r) <= 2**51, hkl(ubi, gv, q, r) >= -2**51) for r in range(3)]))"]
R9 = "[(i, j) for i in range(3) for j in range(3)]"

cfn("closest.c:conv_double_to_int_safe",
    ensures=["result == floor(x + 0.5)"], props=["C06"])

cfn("closest.c:inverse3x3", lens={"H": 3},
    assigns=["H"],
    locals={"det": "det3(old.H)"},
    ensures=["(det != 0) == (result == 0)", "(det == 0) == (result == -1)",
             "implies(det == 0, And_(*[H[i][j] == old.H[i][j] for i, j in %s]))" % R9,
             "implies(det != 0, And_(*[H[i][j] == adj3(old.H, i, j) / det for i, j in %s]))" % R9]
    + ["implies(det != 0, H[%d][%d] * det == adj3(old.H, %d, %d))" % (i, j, i, j) for i in range(3) for j in range(3)],
    props=["C06"])

cfn("closest.c:verify_rounding", rne="exact",
    requires=["n >= -2**30", "n <= 2**30"],
    ensures=["result == 0"], props=["C06"])

SEL = "lambda q: dspec(ubi, gv, q) < tol*tol"
cfn("closest.c:score", lens={"ubi": 3, "gv": "ng"},
    requires=["ng >= 0"] + RNG,
    loops={0: ["n == count('nsel', k, %s)" % SEL, "0 <= n <= k"]},
    ensures=["result == count('nsel', ng, %s)" % SEL],
    props=["C06"])

# ---- score_and_refine: n, mean drlv2, R = sum g h^T, H = sum h h^T over the selected peaks, ubi' = (R H^-1)^-1
SELO = "lambda q: dspec(old.ubi, gv, q) < tol*tol"
def Rsum(i, j, n):
    return "rsum('R%d%d', %s, lambda q: ite(dspec(old.ubi, gv, q) < tol*tol, ihkl(old.ubi, gv, q, %d)*gv[q][%d], 0), 0, 'real')" % (i, j, n, j, i)
def Hsum(i, j, n):
    return "rsum('H%d%d', %s, lambda q: ite(dspec(old.ubi, gv, q) < tol*tol, ihkl(old.ubi, gv, q, %d)*ihkl(old.ubi, gv, q, %d), 0), 0, 'real')" % (i, j, n, j, i)
SUMD = "rsum('sumd', %s, lambda q: ite(dspec(old.ubi, gv, q) < tol*tol, dspec(old.ubi, gv, q), 0), 0, 'real')"
RN = "Mat([[%s],[%s],[%s]])" % (",".join(Rsum(0, j, "ng") for j in range(3)),
                                ",".join(Rsum(1, j, "ng") for j in range(3)),
                                ",".join(Rsum(2, j, "ng") for j in range(3)))
HN = "Mat([[%s],[%s],[%s]])" % (",".join(Hsum(0, j, "ng") for j in range(3)),
                                ",".join(Hsum(1, j, "ng") for j in range(3)),
                                ",".join(Hsum(2, j, "ng") for j in range(3)))
cfn("closest.c:score_and_refine", lens={"ubi": 3, "gv": "ng", "n_arg": 1, "sumdrlv2_arg": 1},
    defined={"n_arg": False, "sumdrlv2_arg": False},
    outputs={"n_arg": "0..1", "sumdrlv2_arg": "0..1"},
    assigns=["ubi", "n_arg", "sumdrlv2_arg"],
    requires=["ng >= 0"] + RNG,
    loops={2: ["n == count('nsel', k, %s)" % SELO, "0 <= n <= k",
               "sumdrlv2 == " + SUMD % "k",
               "And_(*[ubi[i][j] == old.ubi[i][j] for i, j in %s])" % R9,
               "implies(n == 0, sumdrlv2 == 0)",
               "isdef('n')", "isdef('sumdrlv2')"]
              + ["R[%d][%d] == %s" % (i, j, Rsum(i, j, "k")) for i in range(3) for j in range(3)]
              + ["H[%d][%d] == %s" % (i, j, Hsum(i, j, "k")) for i in range(3) for j in range(3)]
              + ["And_(*[And_(defined(R[i], j), defined(H[i], j), defined(UB[i], j), UB[i][j] == 0) for i, j in %s])" % R9]},
    locals={"Rn": RN, "Hn": HN, "npk": "count('nsel', ng, %s)" % SELO},
    ensures=["n_arg[0] == npk",
             "sumdrlv2_arg[0] == ite(npk > 0, %s / npk, 0)" % (SUMD % "ng"),
             # singular normal equations: input returned unchanged
             "implies(det3(Hn) == 0, And_(*[ubi[i][j] == old.ubi[i][j] for i, j in %s]))" % R9,
             "implies(And_(det3(Hn) != 0, det3(matmul3(Rn, inv3(Hn))) == 0), And_(*[ubi[i][j] == old.ubi[i][j] for i, j in %s]))" % R9,
             # otherwise ubi' = inverse(UB), UB = R . H^-1  (inverse by the adjugate formula)
             "implies(And_(det3(Hn) != 0, det3(matmul3(Rn, inv3(Hn))) != 0),"
             " And_(*[ubi[i][j] == inv3(matmul3(Rn, inv3(Hn)))[i][j] for i, j in %s]))" % R9],
    props=["C06"])

# ---- score_and_assign (C07)
TAKE = "lambda q: And_(dspec(ubi, gv, q) < tol*tol, dspec(ubi, gv, q) < old.drlv2[q])"
cfn("closest.c:score_and_assign", lens={"ubi": 3, "gv": "ng", "drlv2": "ng", "labels": "ng"},
    assigns=["drlv2", "labels"],
    requires=["ng >= 0"] + RNG,
    locals={"take": TAKE},
    loops={0: ["n == count('ntake', k, take)", "0 <= n <= k",
               "forall(0, k, lambda q: implies(take(q), And_(labels[q] == label, drlv2[q] == dspec(ubi, gv, q))))",
               "forall(0, k, lambda q: implies(Not_(take(q)), And_(drlv2[q] == old.drlv2[q],"
               "     labels[q] == ite(old.labels[q] == label, -1, old.labels[q]))))",
               "forall(k, ng, lambda q: And_(drlv2[q] == old.drlv2[q], labels[q] == old.labels[q]))"]},
    ensures=["result == count('ntake', ng, take)",
             "forall(0, ng, lambda q: implies(take(q), And_(labels[q] == label, drlv2[q] == dspec(ubi, gv, q))))",
             "forall(0, ng, lambda q: implies(Not_(take(q)), And_(drlv2[q] == old.drlv2[q],"
             "     labels[q] == ite(old.labels[q] == label, -1, old.labels[q]))))"],
    props=["C07"])
