"""Contracts for /repo/src/blobs.c: peak property accumulators (C12) and the disjoint-set forest (C11, C20)."""
import z3
from verif import smt, contract as K
from verif.contract import cfn


def T(tag, *xs):
    return [(tag, x) for x in xs]


# ---------------------------------------------------------------- disjoint set representation invariant
def dset_cnt(S):
    return S[S[0] - 1]


def dset_wf(S):
    """S[0] = capacity = allocated length, S[cap-1] = number of labels in use (cnt), cnt+3 <= cap,
    every label a in 1..cnt points to a label not larger than itself (a forest whose roots are the fixed points)"""
    cap = S[0]
    cnt = S[cap - 1]
    q = smt.fresh("a", smt.I)
    return z3.And(S.alive, cap >= 4, S.length == cap, S.off == 0, cnt >= 0, cnt + 3 <= cap,
                  smt.forall(0, cap, lambda a: S.defined(a)),
                  z3.ForAll([q], z3.Implies(z3.And(1 <= q, q <= cnt), z3.And(1 <= S[q], S[q] <= q))))


def dset_same_forest_outside(S, old, lo, hi):
    """cells outside lo..hi unchanged"""
    q = smt.fresh("a", smt.I)
    return z3.ForAll([q], z3.Implies(z3.Or(q < lo, q > hi), S[q] == old[q]))


K.register_spec(dset_wf=dset_wf, dset_cnt=dset_cnt, dset_same_outside=dset_same_forest_outside)

cfn("blobs.c:dset_initialise",
    requires=["size >= 1", "size <= 2**30"],
    returns=dict(kind="fresh"),
    ensures=["alive(result)", "length(result) == size", "result[0] == size",
             "forall(1, size, lambda q: result[q] == 0)", "forall(0, size, lambda q: defined(result, q))"],
    props=["C11", "C20"])

cfn("blobs.c:dset_find", lens={"S": "cap"}, ghosts=["cap"], assigns=["S"],
    requires=["dset_wf(S)", "1 <= x", "x <= dset_cnt(S)"],
    ensures=["dset_wf(S)", "S[0] == old.S[0]", "dset_cnt(S) == dset_cnt(old.S)",
             "1 <= result", "result <= x", "result <= old.S[x]", "S[result] == result"],
    props=["C11", "C20"])

cfn("blobs.c:dset_link", lens={"S": "cap"}, ghosts=["cap"], assigns=["S"],
    requires=["dset_wf(S)", "1 <= r1", "r1 <= dset_cnt(S)", "1 <= r2", "r2 <= dset_cnt(S)"],
    ensures=["dset_wf(S)", "S[0] == old.S[0]", "dset_cnt(S) == dset_cnt(old.S)"],
    props=["C11", "C20"])

cfn("blobs.c:dset_makeunion", lens={"S": "cap"}, ghosts=["cap"], assigns=["S"],
    requires=["dset_wf(S)", "1 <= r1", "r1 <= dset_cnt(S)", "1 <= r2", "r2 <= dset_cnt(S)"],
    ensures=["dset_wf(S)", "S[0] == old.S[0]", "dset_cnt(S) == dset_cnt(old.S)"],
    props=["C11", "C20"])

cfn("blobs.c:dset_new", lens={"pS": 1, "pS[0]": "cap", "v": 1}, ghosts=["cap"], assigns=["v", "pS[0]"],
    defined={"v": False}, outputs={"v": "0..1"},
    requires=["dset_wf(pS[0])", "pS[0][0] <= 2**30 - 1"],
    returns=dict(kind="fresh", kills=["pS[0]"]),
    loops={0: ["alive(S)", "len_(S) == 2*length", "length - 1 <= i", "i <= 2*length",
               "forall(0, length - 1, lambda q: And_(S[q] == pre.S[q], defined(S, q)))",
               "forall(length - 1, i, lambda q: And_(S[q] == 0, defined(S, q)))"]},
    ensures=["dset_wf(result)", "dset_cnt(result) == dset_cnt(old.pS[0]) + 1", "v[0] == dset_cnt(result)",
             "result[v[0]] == v[0]",
             "forall(1, v[0], lambda a: result[a] == old.pS[0][a])",
             "Or_(result[0] == old.pS[0][0], And_(result[0] == 2*old.pS[0][0], old.pS[0][0] < v[0] + 3))"],
    props=["C11", "C20"])

cfn("blobs.c:dset_compress", lens={"pS": 1, "pS[0]": "cap", "np": 1}, ghosts=["cap"], assigns=["np", "pS[0]"],
    defined={"np": False}, outputs={"np": "0..1"},
    requires=["dset_wf(pS[0])", "pS[0][0] <= 2**30 - 1"],
    returns=dict(kind="fresh"),
    loops={0: ["1 <= i", "i <= dset_cnt(S) + 1", "0 <= npk", "npk <= i - 1", "dset_wf(S)", "S[0] == old.pS[0][0]",
               "dset_cnt(S) == dset_cnt(old.pS[0])", "alive(T)", "length(T) == dset_cnt(S) + 3",
               "forall(0, dset_cnt(S) + 3, lambda q: defined(T, q))",
               "forall(1, i, lambda q: And_(1 <= T[q], T[q] <= npk))", "isdef('npk')"]},
    ensures=["alive(result)", "length(result) == dset_cnt(old.pS[0]) + 3", "0 <= np[0]", "np[0] <= dset_cnt(old.pS[0])",
             "forall(0, dset_cnt(old.pS[0]) + 3, lambda q: defined(result, q))",
             "forall(1, dset_cnt(old.pS[0]) + 1, lambda q: And_(1 <= result[q], result[q] <= np[0]))",
             "dset_wf(pS[0])", "dset_cnt(pS[0]) == dset_cnt(old.pS[0])"],
    props=["C11", "C20"])

# ---------------------------------------------------------------- accumulators
ACC = [("s_1", "1"), ("s_I", "I"), ("s_I2", "I*I"), ("s_fI", "f*I"), ("s_ffI", "f*f*I"), ("s_sI", "s*I"), ("s_ssI", "s*s*I"),
       ("s_sfI", "s*f*I"), ("s_oI", "o*I"), ("s_ooI", "o*o*I"), ("s_soI", "s*o*I"), ("s_foI", "f*o*I")]
cfn("blobs.c:add_pixel", lens={"b": "NPROPERTY"}, assigns=["b"],
    ensures=T("C12", *(["b[%s] == old.b[%s] + %s" % (n, n, e) for n, e in ACC] +
                       ["b[mx_I] == ite(I > old.b[mx_I], I, old.b[mx_I])",
                        "b[mx_I_f] == ite(I > old.b[mx_I], f, old.b[mx_I_f])", "b[mx_I_s] == ite(I > old.b[mx_I], s, old.b[mx_I_s])",
                        "b[mx_I_o] == ite(I > old.b[mx_I], o, old.b[mx_I_o])",
                        "b[bb_mx_f] == max_(real(f), old.b[bb_mx_f])", "b[bb_mx_s] == max_(real(s), old.b[bb_mx_s])",
                        "b[bb_mx_o] == max_(o, old.b[bb_mx_o])", "b[bb_mn_f] == min_(real(f), old.b[bb_mn_f])",
                        "b[bb_mn_s] == min_(real(s), old.b[bb_mn_s])", "b[bb_mn_o] == min_(o, old.b[bb_mn_o])"])),
    props=["C12", "C20"])

SUMS = [n for n, _ in ACC]
cfn("blobs.c:merge", lens={"b1": "NPROPERTY", "b2": "NPROPERTY"}, assigns=["b1", "b2"],
    ensures=T("C12", *(["b1[%s] == old.b1[%s] + old.b2[%s]" % (n, n, n) for n in SUMS] +
                       ["b1[mx_I] == max_(old.b1[mx_I], old.b2[mx_I])",
                        "b1[mx_I_f] == ite(old.b2[mx_I] > old.b1[mx_I], old.b2[mx_I_f], old.b1[mx_I_f])",
                        "b1[mx_I_s] == ite(old.b2[mx_I] > old.b1[mx_I], old.b2[mx_I_s], old.b1[mx_I_s])",
                        "b1[mx_I_o] == ite(old.b2[mx_I] > old.b1[mx_I], old.b2[mx_I_o], old.b1[mx_I_o])"] +
                       ["b1[%s] == max_(old.b1[%s], old.b2[%s])" % (n, n, n) for n in ("bb_mx_f", "bb_mx_s", "bb_mx_o")] +
                       ["b1[%s] == min_(old.b1[%s], old.b2[%s])" % (n, n, n) for n in ("bb_mn_f", "bb_mn_s", "bb_mn_o")] +
                       ["forall(0, NPROPERTY, lambda q: b2[q] == 0)"])),
    props=["C12", "C20"])

# compute_moments: for an arbitrary (ghost) peak row r0 with at least one pixel: average intensity and the three intensity weighted
# centroids are the quotients of the accumulated sums; the sums themselves are not touched
CM_OFF = "r0*NPROPERTY"
CM_POST = ["b[avg_i + %s] == old.b[s_I + %s] / old.b[s_1 + %s]" % (CM_OFF, CM_OFF, CM_OFF)] + \
          ["b[%s + %s] == old.b[%s + %s] / old.b[s_I + %s]" % (dst, CM_OFF, src, CM_OFF, CM_OFF)
           for dst, src in (("f_raw", "s_fI"), ("s_raw", "s_sI"), ("o_raw", "s_oI"))] + \
          ["b[%s + %s] == old.b[%s + %s]" % (n, CM_OFF, n, CM_OFF) for n in SUMS]
cfn("blobs.c:compute_moments", lens={"b": "nb*NPROPERTY"}, assigns=["b"], ghosts=["r0"],
    requires=["nb >= 0", "nb*NPROPERTY <= INT_MAX"] + T("C12", "0 <= r0", "r0 < nb", "old.b[s_1 + %s] != 0" % CM_OFF,
                                                         # a blob that has pixels has a non-zero summed intensity (pixels above a non-negative threshold)
                                                         "forall(0, nb, lambda r: implies(b[s_1 + r*NPROPERTY] != 0, b[s_I + r*NPROPERTY] != 0))"),
    loops={0: T("C12", "forall(i*NPROPERTY, nb*NPROPERTY, lambda q: b[q] == old.b[q])",
                "implies(r0 < i, And_(%s))" % ", ".join(CM_POST))},
    ensures=T("C12", *CM_POST),
    props=["C12", "C20"])
