"""Contracts for /repo/src/cdiffraction.c (C01, C02, C05, C20)."""
from verif.contract import cfn
from . import specs, geom  # noqa


def T(tag, *xs):
    return [(tag, x) for x in xs]


# ---- compute_xlylzl: detector pixel -> lab coordinates with packed parameters p=(s_cen,f_cen,s_size,f_size), r, dist
XSPEC = "r[3*%d+1]*((f[q]-p[1])*p[3]) + r[3*%d+2]*((s[q]-p[0])*p[2]) + dist[%d]"
cfn("cdiffraction.c:compute_xlylzl",
    lens={"s": "n", "f": "n", "p": 4, "r": 9, "dist": 3, "xlylzl": "n"},
    defined={"xlylzl": False}, outputs={"xlylzl": "0..n"}, assigns=["xlylzl"],
    requires=["n >= 0"],
    loops={0: ["forall(0, i, lambda q: defined(xlylzl, q))"] +
              T("C01", *["forall(0, i, lambda q: xlylzl[q][%d] == %s)" % (j, XSPEC % (j, j, j)) for j in range(3)])},
    ensures=T("C01", *["forall(0, n, lambda q: xlylzl[q][%d] == %s)" % (j, XSPEC % (j, j, j)) for j in range(3)]),
    props=["C01", "C20"])

# ---- compute_gv / compute_geometry against the reference geometry (contracts/geom.py)
XYZ = "[old.xlylzl[q][0], old.xlylzl[q][1], old.xlylzl[q][2]]"
TT = "[old.t[0], old.t[1], old.t[2]]"
OM = "old.omega[q]*omegasign"
LOC = {
    "G": "opaque_fn('gvG', lambda q, c: geom_gvec(%s, %s, wedge, chi, %s, wvln)[c])" % (XYZ, OM, TT),
    "GEO": "opaque_fn('geoG', lambda q, c: geom_geometry(%s, %s, wedge, chi, %s, wvln)[c])" % (XYZ, OM, TT),
    "D": "lambda q: geom_dvec(%s, %s, wedge, chi, %s)" % (XYZ, OM, TT),
    "DSQ": "opaque_fn('dsqG', lambda q: geom_dsq(%s, %s, wedge, chi, %s))" % (XYZ, OM, TT),
}
PRE = T("C01", "wvln != 0", "forall(0, n, lambda q: DSQ(q) > 0)")
STEPS_D = T("C01", "d[0] == D(i)[0]", "d[1] == D(i)[1]", "d[2] == D(i)[2]",
            "d[0]*d[0] + d[1]*d[1] + d[2]*d[2] == DSQ(i)")
BEFORE = "before:modyz=1./sqrt(d[0]*d[0]+d[1]*d[1]+d[2]*d[2])"

cfn("cdiffraction.c:compute_gv",
    lens={"xlylzl": "n", "omega": "n", "t": 3, "gv": "n"},
    defined={"gv": False}, outputs={"gv": "0..n"}, assigns=["gv"],
    requires=["n >= 0"] + PRE, locals=LOC,
    loops={0: ["forall(0, i, lambda q: defined(gv, q))"] +
              T("C01", "forall(0, i, lambda q: And_(*[gv[q][c] == G(q, c) for c in range(3)]))")},
    asserts={BEFORE: STEPS_D,
             0: T("C01", *(["k[%d] == geom_kvec(D(i), wvln)[%d]" % (c, c) for c in range(3)]
                           + ["gv[i][%d] == geom_g_from_k([k[0], k[1], k[2]], old.omega[i]*omegasign, wedge, chi)[%d]" % (c, c) for c in range(3)]
                           + ["gv[i][%d] == G(i, %d)" % (c, c) for c in range(3)]))},
    ensures=T("C01", "forall(0, n, lambda q: And_(*[gv[q][c] == G(q, c) for c in range(3)]))"),
    props=["C01", "C02", "C20"])

cfn("cdiffraction.c:compute_geometry",
    lens={"xlylzl": "n", "omega": "n", "t": 3, "out": "n"},
    defined={"out": False}, outputs={"out": "0..n"}, assigns=["out"],
    requires=["n >= 0"] + PRE, locals=LOC,
    loops={0: ["forall(0, i, lambda q: defined(out, q))"] +
              T("C01", "forall(0, i, lambda q: And_(*[out[q][c] == GEO(q, c) for c in range(6)]))")},
    asserts={BEFORE: STEPS_D,
             0: T("C01", *(["k[%d] == geom_kvec(D(i), wvln)[%d]" % (c, c) for c in range(3)]
                           + ["out[i][%d] == geom_g_from_k([k[0], k[1], k[2]], old.omega[i]*omegasign, wedge, chi)[%d]" % (c + 3, c) for c in range(3)]
                           + ["out[i][%d] == GEO(i, %d)" % (c, c) for c in range(6)]))},
    ensures=T("C01", "forall(0, n, lambda q: And_(*[out[q][c] == GEO(q, c) for c in range(6)]))"),
    props=["C01", "C02", "C20"])

# quickorient (C05): the Busing-Levy core. g1, g2 = the two observed g-vectors on entry, c = g1 x g2. The result is the one matrix that
# sends g1 -> BT.(|g1|, 0, 0), c -> BT.(0, 0, |c|) and g2 -> BT.(g1.g2/|g1|, -|c|/|g1|, 0); since (g1, g2, c) is a basis this fixes all nine
# entries. With BT = BTmat(h1, h2) (unitcell.py) these are the Cartesian coordinates of h1, h1 x h2, h2 in the crystal frame of B, which is
# what makes the result the inverse of U.B. Stated from the property, not from the code: the normalisations and the sign of the middle row
# are consequences.
_G1 = ["old.UBI[0]", "old.UBI[1]", "old.UBI[2]"]
_G2 = ["old.UBI[3]", "old.UBI[4]", "old.UBI[5]"]
_CX = ["(old.UBI[1]*old.UBI[5] - old.UBI[2]*old.UBI[4])", "(old.UBI[2]*old.UBI[3] - old.UBI[0]*old.UBI[5])",
       "(old.UBI[0]*old.UBI[4] - old.UBI[1]*old.UBI[3])"]
_dot = lambda a, b: "(" + " + ".join("%s*%s" % (x, y) for x, y in zip(a, b)) + ")"
_N1, _NC = "sqrt(%s)" % _dot(_G1, _G1), "sqrt(%s)" % _dot(_CX, _CX)
_ROW = lambda r: ["UBI[%d]" % (3 * r + c) for c in range(3)]
QO_POST = []
for _r in range(3):
    QO_POST += ["%s == BT[%d]*%s" % (_dot(_ROW(_r), _G1), 3 * _r, _N1),
                "%s == BT[%d]*%s" % (_dot(_ROW(_r), _CX), 3 * _r + 2, _NC),
                "%s*%s == BT[%d]*%s - BT[%d]*%s" % (_dot(_ROW(_r), _G2), _N1, 3 * _r, _dot(_G1, _G2), 3 * _r + 1, _NC)]
# proof steps placed before the first store to UBI (UBI still holds g1, g2 there): the triad M in terms of g1, g2, c
_g1, _g2, _cx = [x.replace("old.", "") for x in _G1], [x.replace("old.", "") for x in _G2], [x.replace("old.", "") for x in _CX]
_M = lambda r: ["M[%d]" % (3 * r + c) for c in range(3)]
_g1xc = ["(%s*%s - %s*%s)" % (_g1[1], _cx[2], _g1[2], _cx[1]), "(%s*%s - %s*%s)" % (_g1[2], _cx[0], _g1[0], _cx[2]),
         "(%s*%s - %s*%s)" % (_g1[0], _cx[1], _g1[1], _cx[0])]
QO_STEPS = (["t0 > 0", "t1 > 0", "t0*t0 == %s" % _dot(_g1, _g1), "t1*t1 == %s" % _dot(_cx, _cx)]
            + ["M[%d]*t0 == %s" % (c, _g1[c]) for c in range(3)] + ["M[%d]*t1 == %s" % (6 + c, _cx[c]) for c in range(3)]
            + ["M[3]*(t0*t1) == (M[1]*t0)*(M[8]*t1) - (M[2]*t0)*(M[7]*t1)", "M[4]*(t0*t1) == (M[2]*t0)*(M[6]*t1) - (M[0]*t0)*(M[8]*t1)",
               "M[5]*(t0*t1) == (M[0]*t0)*(M[7]*t1) - (M[1]*t0)*(M[6]*t1)"]
            + ["(M[%d]*t0)*(M[%d]*t1) == %s*%s" % (a, 6 + b, _g1[a], _cx[b]) for a in range(3) for b in range(3) if a != b]
            + ["(M[1]*t0)*(M[8]*t1) - (M[2]*t0)*(M[7]*t1) == %s" % _g1xc[0], "(M[2]*t0)*(M[6]*t1) - (M[0]*t0)*(M[8]*t1) == %s" % _g1xc[1],
               "(M[0]*t0)*(M[7]*t1) - (M[1]*t0)*(M[6]*t1) == %s" % _g1xc[2]]
            + ["M[%d]*(t0*t1) == %s" % (3 + c, _g1xc[c]) for c in range(3)]
            + ["%s == -%s" % (_dot(_g1xc, _g2), _dot(_cx, _cx)), "%s == -(t1*t1)" % _dot(_g1xc, _g2)]
            + ["%s == t0*t0" % _dot(["(M[%d]*t0)" % c for c in range(3)], _g1),
               "%s == t1*t1" % _dot(["(M[%d]*t1)" % (6 + c) for c in range(3)], _cx),
               "%s == %s" % (_dot(["(M[%d]*t0)" % c for c in range(3)], _g2), _dot(_g1, _g2)),
               "%s == -(t1*t1)" % _dot(["(M[%d]*(t0*t1))" % (3 + c) for c in range(3)], _g2)]
            + ["%s*t0 == 0" % _dot(_M(0), _cx), "%s == 0" % _dot(_M(0), _cx),
               "%s*t1 == t1*t1" % _dot(_M(2), _cx), "%s == t1" % _dot(_M(2), _cx),
               "%s*(t0*t1) == 0" % _dot(_M(1), _cx), "%s == 0" % _dot(_M(1), _cx),
               "%s*t0 == %s" % (_dot(_M(0), _g2), _dot(_g1, _g2)),
               "%s*t1 == 0" % _dot(_M(2), _g2), "%s == 0" % _dot(_M(2), _g2),
               "%s*(t0*t1) == -(t1*t1)" % _dot(_M(1), _g2), "%s*t0 == -t1" % _dot(_M(1), _g2),
               "%s*t0 == t0*t0" % _dot(_M(0), _g1), "%s == t0" % _dot(_M(0), _g1),
               "%s == 0" % _dot(_M(2), _g1), "%s == 0" % _dot(_M(1), _g1)]
            + ["%s*t0 == 0" % _dot(_M(2), _g2)]
            + [x for r in range(3) for x in ("BT[%d]*(%s*t0) == BT[%d]*%s" % (3 * r, _dot(_M(0), _g2), 3 * r, _dot(_g1, _g2)),
                                             "BT[%d]*(%s*t0) == -(BT[%d]*t1)" % (3 * r + 1, _dot(_M(1), _g2), 3 * r + 1),
                                             "BT[%d]*(%s*t0) == 0" % (3 * r + 2, _dot(_M(2), _g2)))]
            + ["BT[%d]*(%s*t0) + BT[%d]*(%s*t0) + BT[%d]*(%s*t0) == BT[%d]*%s - BT[%d]*t1"
               % (3 * r, _dot(_M(0), _g2), 3 * r + 1, _dot(_M(1), _g2), 3 * r + 2, _dot(_M(2), _g2), 3 * r, _dot(_g1, _g2), 3 * r + 1)
               for r in range(3)]
            + ["(BT[%d]*%s + BT[%d]*%s + BT[%d]*%s)*t0 == BT[%d]*(%s*t0) + BT[%d]*(%s*t0) + BT[%d]*(%s*t0)"
               % (3 * r, _dot(_M(0), _g2), 3 * r + 1, _dot(_M(1), _g2), 3 * r + 2, _dot(_M(2), _g2),
                  3 * r, _dot(_M(0), _g2), 3 * r + 1, _dot(_M(1), _g2), 3 * r + 2, _dot(_M(2), _g2)) for r in range(3)]
            + ["(BT[%d]*%s + BT[%d]*%s + BT[%d]*%s)*t0 == BT[%d]*%s - BT[%d]*t1"
               % (3 * r, _dot(_M(0), _g2), 3 * r + 1, _dot(_M(1), _g2), 3 * r + 2, _dot(_M(2), _g2), 3 * r, _dot(_g1, _g2), 3 * r + 1)
               for r in range(3)]
            + ["%s*t0 == BT[%d]*%s - BT[%d]*t1"
               % (_dot(["(BT[%d]*M[%d] + BT[%d]*M[%d] + BT[%d]*M[%d])" % (3 * r, c, 3 * r + 1, 3 + c, 3 * r + 2, 6 + c) for c in range(3)], _g2),
                  3 * r, _dot(_g1, _g2), 3 * r + 1) for r in range(3)])
cfn("cdiffraction.c:quickorient", lens={"UBI": 9, "BT": 9}, assigns=["UBI"],
    asserts={"before:UBI[0]=BT[0]*M[0]+BT[1]*M[3]+BT[2]*M[6]": T("C05", *QO_STEPS)},
    requires=T("C05", "%s > 0" % _dot(_G1, _G1).replace("old.", ""), "%s > 0" % _dot(_CX, _CX).replace("old.", "")),
    ensures=T("C05", *QO_POST), props=["C05", "C20"])
