"""Contracts for /repo/src/cdiffraction.c (C01, C02, C05, C20)."""
from verif.contract import cfn
from . import specs, geom  # noqa


def T(tag, *xs):
    return [(tag, x) for x in xs]


# ---- compute_xlylzl: detector pixel -> lab coordinates with packed parameters p=(s_cen,f_cen,s_size,f_size), r, dist
XSPEC = "r[3*%d+1]*((f[q]-p[1])*p[3]) + r[3*%d+2]*((s[q]-p[0])*p[2]) + dist[%d]"
cfn("cdiffraction.c:compute_xlylzl",
    lens={"s": "n", "f": "n", "p": 4, "r": 9, "dist": 3, "xlylzl": "n"},
    defined={"xlylzl": False}, outputs={"xlylzl": "0..n"}, assigns=["xlylzl"],
    requires=["n >= 0"],
    loops={0: ["forall(0, i, lambda q: defined(xlylzl, q))"] +
              T("C01", *["forall(0, i, lambda q: xlylzl[q][%d] == %s)" % (j, XSPEC % (j, j, j)) for j in range(3)])},
    ensures=T("C01", *["forall(0, n, lambda q: xlylzl[q][%d] == %s)" % (j, XSPEC % (j, j, j)) for j in range(3)]),
    props=["C01", "C20"])

# ---- compute_gv / compute_geometry against the reference geometry (contracts/geom.py)
XYZ = "[old.xlylzl[q][0], old.xlylzl[q][1], old.xlylzl[q][2]]"
TT = "[old.t[0], old.t[1], old.t[2]]"
OM = "old.omega[q]*omegasign"
LOC = {
    "G": "opaque_fn('gvG', lambda q, c: geom_gvec(%s, %s, wedge, chi, %s, wvln)[c])" % (XYZ, OM, TT),
    "GEO": "opaque_fn('geoG', lambda q, c: geom_geometry(%s, %s, wedge, chi, %s, wvln)[c])" % (XYZ, OM, TT),
    "D": "lambda q: geom_dvec(%s, %s, wedge, chi, %s)" % (XYZ, OM, TT),
    "DSQ": "opaque_fn('dsqG', lambda q: geom_dsq(%s, %s, wedge, chi, %s))" % (XYZ, OM, TT),
}
PRE = T("C01", "wvln != 0", "forall(0, n, lambda q: DSQ(q) > 0)")
STEPS_D = T("C01", "d[0] == D(i)[0]", "d[1] == D(i)[1]", "d[2] == D(i)[2]",
            "d[0]*d[0] + d[1]*d[1] + d[2]*d[2] == DSQ(i)")
BEFORE = "before:modyz=1./sqrt(d[0]*d[0]+d[1]*d[1]+d[2]*d[2])"

cfn("cdiffraction.c:compute_gv",
    lens={"xlylzl": "n", "omega": "n", "t": 3, "gv": "n"},
    defined={"gv": False}, outputs={"gv": "0..n"}, assigns=["gv"],
    requires=["n >= 0"] + PRE, locals=LOC,
    loops={0: ["forall(0, i, lambda q: defined(gv, q))"] +
              T("C01", "forall(0, i, lambda q: And_(*[gv[q][c] == G(q, c) for c in range(3)]))")},
    asserts={BEFORE: STEPS_D,
             0: T("C01", *(["k[%d] == geom_kvec(D(i), wvln)[%d]" % (c, c) for c in range(3)]
                           + ["gv[i][%d] == geom_g_from_k([k[0], k[1], k[2]], old.omega[i]*omegasign, wedge, chi)[%d]" % (c, c) for c in range(3)]
                           + ["gv[i][%d] == G(i, %d)" % (c, c) for c in range(3)]))},
    ensures=T("C01", "forall(0, n, lambda q: And_(*[gv[q][c] == G(q, c) for c in range(3)]))"),
    props=["C01", "C02", "C20"])

cfn("cdiffraction.c:compute_geometry",
    lens={"xlylzl": "n", "omega": "n", "t": 3, "out": "n"},
    defined={"out": False}, outputs={"out": "0..n"}, assigns=["out"],
    requires=["n >= 0"] + PRE, locals=LOC,
    loops={0: ["forall(0, i, lambda q: defined(out, q))"] +
              T("C01", "forall(0, i, lambda q: And_(*[out[q][c] == GEO(q, c) for c in range(6)]))")},
    asserts={BEFORE: STEPS_D,
             0: T("C01", *(["k[%d] == geom_kvec(D(i), wvln)[%d]" % (c, c) for c in range(3)]
                           + ["out[i][%d] == geom_g_from_k([k[0], k[1], k[2]], old.omega[i]*omegasign, wedge, chi)[%d]" % (c + 3, c) for c in range(3)]
                           + ["out[i][%d] == GEO(i, %d)" % (c, c) for c in range(6)]))},
    ensures=T("C01", "forall(0, n, lambda q: And_(*[out[q][c] == GEO(q, c) for c in range(6)]))"),
    props=["C01", "C02", "C20"])

cfn("cdiffraction.c:quickorient", lens={"UBI": 9, "BT": 9}, assigns=["UBI"], props=["C05", "C20"])
