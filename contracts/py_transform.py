"""Contracts (as traced obligations) for ImageD11/transform.py - the documented python reference formulas (C01, C02).

Each function is executed symbolically (engine T) and compared with the reference geometry of contracts/geom.py.
Callers are checked against callee contracts: compute_tth_eta, compute_g_vectors, Ctransform and
columnfile.updateGeometry are traced with their callees replaced by the spec functions proved for them.
"""
import z3
from verif import smt, symtrace as ST, contract as K
from verif.units import GenUnit
from verif.tunits import repo_module, trace_obligations, flat
from . import geom as G

PARS = ["y_center", "y_size", "tilt_y", "z_center", "z_size", "tilt_z", "tilt_x", "distance", "o11", "o12", "o21", "o22"]


def _detpars():
    return {p: ST.sym(p) for p in PARS}


def _T(x):
    return ST.term(x)


def u_detector_rotation_matrix(ctx):
    tr = repo_module("ImageD11.transform")
    def args():
        return (ST.sym("tilt_x"), ST.sym("tilt_y"), ST.sym("tilt_z")), {}
    def spec(a, kw, pc):
        return G.det_rot(*[_T(x) for x in a])
    return trace_obligations("py:transform.detector_rotation_matrix", tr.detector_rotation_matrix, [tr], args, spec, prop="C01")


def xyz_spec(sc, fc, p):
    rmat = G.det_rot(_T(p["tilt_x"]), _T(p["tilt_y"]), _T(p["tilt_z"]))
    return G.xyz_lab(_T(sc), _T(fc), rmat, [_T(p[k]) for k in ("o11", "o12", "o21", "o22")],
                     [_T(p["z_center"]), _T(p["y_center"])], [_T(p["z_size"]), _T(p["y_size"])], [_T(p["distance"]), 0, 0])


def u_compute_xyz_lab(ctx):
    tr = repo_module("ImageD11.transform")
    def args():
        return (ST.symarray("pk", (2, 1)),), _detpars()
    def spec(a, kw, pc):
        return xyz_spec(a[0][0, 0], a[0][1, 0], kw)
    return trace_obligations("py:transform.compute_xyz_lab", tr.compute_xyz_lab, [tr], args, spec, prop="C01")


def u_compute_grain_origins(ctx):
    tr = repo_module("ImageD11.transform")
    def args():
        return (ST.symarray("omega", (1,)),), dict(wedge=ST.sym("wedge"), chi=ST.sym("chi"), t_x=ST.sym("t_x"),
                                                    t_y=ST.sym("t_y"), t_z=ST.sym("t_z"))
    def spec(a, kw, pc):
        return G.origin(_T(a[0][0]), _T(kw["wedge"]), _T(kw["chi"]), [_T(kw["t_x"]), _T(kw["t_y"]), _T(kw["t_z"])])
    return trace_obligations("py:transform.compute_grain_origins", tr.compute_grain_origins, [tr], args, spec, prop="C01")


def u_compute_tth_eta_from_xyz(ctx):
    tr = repo_module("ImageD11.transform")
    def args():
        return (ST.symarray("xyz", (3, 1)), ST.symarray("omega", (1,))), dict(
            wedge=ST.sym("wedge"), chi=ST.sym("chi"), t_x=ST.sym("t_x"), t_y=ST.sym("t_y"), t_z=ST.sym("t_z"))
    def spec(a, kw, pc):
        d = G.dvec([_T(a[0][i, 0]) for i in range(3)], _T(a[1][0]), _T(kw["wedge"]), _T(kw["chi"]),
                   [_T(kw["t_x"]), _T(kw["t_y"]), _T(kw["t_z"])])
        return list(G.tth_eta(d))
    return trace_obligations("py:transform.compute_tth_eta_from_xyz", tr.compute_tth_eta_from_xyz, [tr], args, spec, prop="C01")


def u_compute_g_from_k(ctx):
    tr = repo_module("ImageD11.transform")
    def args():
        return (ST.symarray("k", (3, 1)), ST.symarray("omega", (1,))), dict(wedge=ST.sym("wedge"), chi=ST.sym("chi"))
    def spec(a, kw, pc):
        return G.g_from_k([_T(a[0][i, 0]) for i in range(3)], _T(a[1][0]), _T(kw["wedge"]), _T(kw["chi"]))
    return trace_obligations("py:transform.compute_g_from_k", tr.compute_g_from_k, [tr], args, spec, prop="C01")


def u_k_lemma(ctx):
    """compute_k_vectors(tth(d), eta(d), wvln) == (d/|d| - e_x)/wvln  for a ray d with (dy,dz) != 0 and wvln != 0.
    Uses the trusted trig facts T1-T4 instantiated on the occurring arguments."""
    tr = repo_module("ImageD11.transform")
    d = [z3.Real("dx"), z3.Real("dy"), z3.Real("dz")]
    def args():
        K.MODE = "sym"
        tth, eta = G.tth_eta(d)
        return (ST.lift([ST.S(tth)]), ST.lift([ST.S(eta)]), ST.sym("wvln")), {}
    def spec(a, kw, pc):
        return G.kvec(d, _T(a[2]))
    R = smt.sqrt_f(d[0] * d[0] + d[1] * d[1] + d[2] * d[2])
    P = smt.sqrt_f(d[1] * d[1] + d[2] * d[2])
    dd = d[0] * d[0] + d[1] * d[1] + d[2] * d[2]
    pp = d[1] * d[1] + d[2] * d[2]
    lem = [z3.And(R > 0, R * R == dd), z3.And(P > 0, P * P == pp),
           # sqrt(P^2 + dx^2) is |d| (same radicand): instance of sqrt being a function of its argument
           smt.sqrt_f(P * P + d[0] * d[0]) == R]
    return trace_obligations("py:transform.compute_k_vectors[k-lemma]", tr.compute_k_vectors, [tr], args, spec,
                             requires=[z3.Or(d[1] != 0, d[2] != 0), z3.Real("wvln") != 0], prop="C01", lemmas=lem)


def units():
    return [GenUnit("py:transform.detector_rotation_matrix", u_detector_rotation_matrix, "trace"),
            GenUnit("py:transform.compute_xyz_lab", u_compute_xyz_lab, "trace"),
            GenUnit("py:transform.compute_grain_origins", u_compute_grain_origins, "trace"),
            GenUnit("py:transform.compute_tth_eta_from_xyz", u_compute_tth_eta_from_xyz, "trace"),
            GenUnit("py:transform.compute_g_from_k", u_compute_g_from_k, "trace"),
            GenUnit("py:transform.compute_k_vectors[k-lemma]", u_k_lemma, "trace")]


# ------------------------------------------------------------------------------------------------------------
# callers, traced with their compiled / python callees replaced by the contracts proved for them

CPARS = ["y_center", "z_center", "y_size", "z_size", "distance", "wavelength", "omegasign", "tilt_x", "tilt_y", "tilt_z",
         "o11", "o12", "o21", "o22", "wedge", "chi"]


class FakeC:
    """cImageD11 entry points replaced by the postconditions proved for the C kernels (contracts/c_cdiffraction.py)"""

    @staticmethod
    def compute_xlylzl(s, f, p, r, dist, out):
        for i in range(len(s)):
            for j in range(3):
                # the `ensures` of cdiffraction.c:compute_xlylzl
                out[i, j] = r[3 * j + 1] * ((f[i] - p[1]) * p[3]) + r[3 * j + 2] * ((s[i] - p[0]) * p[2]) + dist[j]

    @staticmethod
    def compute_gv(xyz, omega, omegasign, wvln, wedge, chi, t, out):
        for i in range(len(omega)):
            g = G.gvec([_T(xyz[i, c]) for c in range(3)], _T(omega[i] * omegasign), _T(wedge), _T(chi),
                       [_T(t[0]), _T(t[1]), _T(t[2])], _T(wvln))
            for c in range(3):
                out[i, c] = ST.S(g[c])

    @staticmethod
    def compute_geometry(xyz, omega, omegasign, wvln, wedge, chi, t, out):
        for i in range(len(omega)):
            g = G.geometry([_T(xyz[i, c]) for c in range(3)], _T(omega[i] * omegasign), _T(wedge), _T(chi),
                           [_T(t[0]), _T(t[1]), _T(t[2])], _T(wvln))
            for c in range(6):
                out[i, c] = ST.S(g[c])


def _cpars():
    return {p: ST.sym(p) for p in CPARS}


def u_ctransform(ctx):
    tr = repo_module("ImageD11.transform")
    def args():
        return (_cpars(), ST.symarray("sc", (1,)), ST.symarray("fc", (1,)), ST.symarray("omega", (1,)),
                ST.sym("tx"), ST.sym("ty"), ST.sym("tz")), {}
    def run(p, sc, fc, om, tx, ty, tz):
        c = tr.Ctransform(p)
        xyz = c.sf2xyz(sc, fc)
        gv = c.sf2gv(sc, fc, om, tx, ty, tz)
        geo = c.xyz2geometry(xyz, om, tx, ty, tz)
        return [xyz[0, :], gv[0, :], geo[0, :]]
    def spec(a, kw, pc):
        p, sc, fc, om, tx, ty, tz = a
        xyz = xyz_spec(sc[0], fc[0], p)
        t = [_T(tx), _T(ty), _T(tz)]
        oms = _T(om[0] * p["omegasign"])
        return [xyz, G.gvec(xyz, oms, _T(p["wedge"]), _T(p["chi"]), t, _T(p["wavelength"])),
                G.geometry(xyz, oms, _T(p["wedge"]), _T(p["chi"]), t, _T(p["wavelength"]))]
    return trace_obligations("py:transform.Ctransform", run, [tr], args, spec, prop="C01", extra={"cImageD11": FakeC})


class _Pars:
    def __init__(self, d):
        self.parameters = d

    def get(self, k):
        return self.parameters[k]


class _FakeColumnfile:
    """the attributes updateGeometry uses; addcolumn records what would become the columns"""

    def __init__(self, pars, sc, fc, omega):
        self.parameters = _Pars(pars)
        self.titles = ["sc", "fc", "omega"]
        self.sc, self.fc, self.omega = sc, fc, omega
        self.nrows = len(sc)
        self.cols = {}

    def setparameters(self, p):
        self.parameters = p

    def addcolumn(self, col, name):
        assert len(col) == self.nrows
        self.cols[name] = col
        if name not in self.titles:
            self.titles.append(name)
        setattr(self, name, col)


COLS = ("xl", "yl", "zl", "tth", "eta", "ds", "gx", "gy", "gz")


def _update_geometry_unit(fast):
    def gen(ctx):
        cfm = repo_module("ImageD11.columnfile")
        tr = repo_module("ImageD11.transform")
        allp = CPARS + ["t_x", "t_y", "t_z"]
        # python callees replaced by their contracts (proved above): xyz, (tth, eta), k from angles
        KA = [z3.Function("k_from_angles_%d" % j, smt.R, smt.R, smt.R, smt.R) for j in range(3)]

        def stub_xyz(peaks, **p):
            out = ST.lift([[0], [0], [0]])
            x = xyz_spec(peaks[0][0], peaks[1][0], p)
            for j in range(3):
                out[j, 0] = ST.S(x[j])
            return out

        def stub_tth_eta(xyz, omega, **p):
            d = G.dvec([_T(xyz[i, 0]) for i in range(3)], _T(omega[0]), _T(p["wedge"]), _T(p["chi"]),
                       [_T(p["t_x"]), _T(p["t_y"]), _T(p["t_z"])])
            tth, eta = G.tth_eta(d)
            return ST.lift([ST.S(tth)]), ST.lift([ST.S(eta)])

        def stub_k(tth, eta, wvln):
            out = ST.lift([[0], [0], [0]])
            for j in range(3):
                out[j, 0] = ST.S(KA[j](_T(tth[0]), _T(eta[0]), _T(wvln)))
            return out

        def args():
            p = {k: ST.sym(k) for k in allp}
            return (p, ST.symarray("sc", (1,)), ST.symarray("fc", (1,)), ST.symarray("omega", (1,))), {}

        def run(p, sc, fc, om):
            f = _FakeColumnfile(p, sc, fc, om)
            saved = (tr.compute_xyz_lab, tr.compute_tth_eta_from_xyz, tr.compute_k_vectors, tr.cImageD11)
            tr.compute_xyz_lab, tr.compute_tth_eta_from_xyz, tr.compute_k_vectors, tr.cImageD11 = stub_xyz, stub_tth_eta, stub_k, FakeC
            try:
                cfm.columnfile.updateGeometry(f, fast=fast)
            finally:
                tr.compute_xyz_lab, tr.compute_tth_eta_from_xyz, tr.compute_k_vectors, tr.cImageD11 = saved
            return [f.cols[c][0] for c in COLS]

        p0, sc0, fc0, om0 = args()[0]
        xyz = xyz_spec(sc0[0], fc0[0], p0)
        t = [_T(p0["t_x"]), _T(p0["t_y"]), _T(p0["t_z"])]
        oms = _T(om0[0] * p0["omegasign"])
        K.MODE = "sym"
        d = G.dvec(xyz, oms, _T(p0["wedge"]), _T(p0["chi"]), t)
        tth, eta = G.tth_eta(d)
        kv = G.kvec(d, _T(p0["wavelength"]))
        # k-lemma (proved as unit py:transform.compute_k_vectors[k-lemma]) instantiated at this ray, and |R.k| = |k|
        # (proved as lemma:rotation_preserves_norm), the two callee facts the slow route needs
        lem = [KA[j](tth, eta, _T(p0["wavelength"])) == kv[j] for j in range(3)]
        steps, gs = norm_steps(kv, oms, _T(p0["wedge"]), _T(p0["chi"]))
        lem += steps + [G.dot3(gs, gs) == G.dot3(kv, kv), z3.simplify(G.dot3(gs, gs)) == z3.simplify(G.dot3(kv, kv)),
                        smt.sqrt_f(G.dot3(gs, gs)) == smt.sqrt_f(G.dot3(kv, kv))]

        def spec(a, kw, pc):
            geo = G.geometry(xyz, oms, _T(p0["wedge"]), _T(p0["chi"]), t, _T(p0["wavelength"]))
            return list(xyz) + geo

        return trace_obligations("py:columnfile.updateGeometry[fast=%s]" % fast, run, [cfm, tr], args, spec, prop="C01",
                                 extra={"float": lambda x: x}, lemmas=lem, chain_order=[0, 1, 2, 3, 4, 6, 7, 8, 5])
    return gen


def _update_gv_unit(with_translation):
    """columnfile.updateGV (fast route): gx, gy, gz are the reference g-vector; the translation comes from the argument when given, else
    from the parameters"""
    def gen(ctx):
        cfm = repo_module("ImageD11.columnfile")
        tr = repo_module("ImageD11.transform")
        allp = CPARS + ["t_x", "t_y", "t_z"]

        def args():
            p = {k: ST.sym(k) for k in allp}
            return (p, ST.symarray("sc", (1,)), ST.symarray("fc", (1,)), ST.symarray("omega", (1,)), ST.symarray("targ", (3,))), {}

        def run(p, sc, fc, om, targ):
            f = _FakeColumnfile(p, sc, fc, om)
            saved = tr.cImageD11
            tr.cImageD11 = FakeC
            try:
                cfm.columnfile.updateGV(f, translation=(list(targ) if with_translation else None), fast=True)
            finally:
                tr.cImageD11 = saved
            return [f.cols[c][0] for c in ("gx", "gy", "gz")]

        def spec(a, kw, pc):
            p0, sc0, fc0, om0, targ = a
            xyz = xyz_spec(sc0[0], fc0[0], p0)
            t = [_T(x) for x in targ] if with_translation else [_T(p0["t_x"]), _T(p0["t_y"]), _T(p0["t_z"])]
            return G.gvec(xyz, _T(om0[0] * p0["omegasign"]), _T(p0["wedge"]), _T(p0["chi"]), t, _T(p0["wavelength"]))
        return trace_obligations("py:columnfile.updateGV[translation %s]" % ("given" if with_translation else "from parameters"), run,
                                 [cfm, tr], args, spec, prop="C01", extra={"float": lambda x: x})
    return gen


def norm_steps(k, om, w, c):
    """the three single-rotation norm identities instantiated along g = R.C.W.k (each proved for free vectors below)"""
    t1 = G.rotW(k, w)
    t2 = G.rotC(t1, c)
    g = G.rotR(t2, om)
    return [G.dot3(t1, t1) == G.dot3(k, k), G.dot3(t2, t2) == G.dot3(t1, t1), G.dot3(g, g) == G.dot3(t2, t2)], g


def u_norm_lemma(ctx=None):
    """|R(omega).C(chi).W(wedge).k|^2 == |k|^2, rotation by rotation (sin^2+cos^2 = 1 for the angle involved)"""
    K.MODE = "sym"
    K.SINK.reset()
    v = [z3.Real("v0"), z3.Real("v1"), z3.Real("v2")]
    a = z3.Real("angle")
    t1f = [G.sind(a) * G.sind(a) + G.cosd(a) * G.cosd(a) == 1]
    out = []
    for nm, f in (("W", G.rotW), ("C", G.rotC), ("R", G.rotR)):
        r = f(v, a)
        out.append(("step" + nm, t1f + K.SINK.drain(), G.dot3(r, r) == G.dot3(v, v)))
    k = [z3.Real("k0"), z3.Real("k1"), z3.Real("k2")]
    steps, g = norm_steps(k, z3.Real("omega"), z3.Real("wedge"), z3.Real("chi"))
    out.append(("norm", steps + K.SINK.drain(), G.dot3(g, g) == G.dot3(k, k)))
    return out


def pbp_units():
    """the numba copies of the formulas in sinograms/point_by_point.py (their py_func is what numba compiles)"""
    def mk(fname, args, spec, requires=(), lemmas_fn=None):
        def gen(ctx):
            pbp = repo_module("ImageD11.sinograms.point_by_point")
            disp = {n: getattr(pbp, n).py_func for n in dir(pbp) if hasattr(getattr(pbp, n), "py_func")}
            lem = lemmas_fn() if lemmas_fn else ()
            return trace_obligations("py:point_by_point." + fname, disp[fname], [pbp], args, spec, prop="C01",
                                     extra=disp, requires=requires, lemmas=lem)
        return GenUnit("py:point_by_point." + fname, gen, "trace")

    out = []
    out.append(mk("detector_rotation_matrix", lambda: ((ST.sym("tilt_x"), ST.sym("tilt_y"), ST.sym("tilt_z")), {}),
                  lambda a, kw, pc: G.det_rot(*[_T(x) for x in a])))
    out.append(mk("compute_xyz_lab", lambda: ((ST.symarray("sc", (1,)), ST.symarray("fc", (1,))), _detpars()),
                  lambda a, kw, pc: xyz_spec(a[0][0], a[1][0], kw)))
    out.append(mk("compute_grain_origins",
                  lambda: ((ST.symarray("omega", (1,)), ST.sym("wedge"), ST.sym("chi"), ST.sym("t_x"), ST.sym("t_y"), ST.sym("t_z")), {}),
                  lambda a, kw, pc: G.origin(_T(a[0][0]), _T(a[1]), _T(a[2]), [_T(a[3]), _T(a[4]), _T(a[5])])))
    def tth_eta_spec(a, kw, pc):
        d = G.dvec([_T(a[0][i, 0]) for i in range(3)], _T(a[1][0]), _T(kw["wedge"]), _T(kw["chi"]),
                   [_T(kw["t_x"]), _T(kw["t_y"]), _T(kw["t_z"])])
        return list(G.tth_eta(d))
    out.append(mk("compute_tth_eta_from_xyz",
                  lambda: ((ST.symarray("xyz", (3, 1)), ST.symarray("omega", (1,))),
                           dict(wedge=ST.sym("wedge"), chi=ST.sym("chi"), t_x=ST.sym("t_x"), t_y=ST.sym("t_y"), t_z=ST.sym("t_z"))),
                  tth_eta_spec))
    out.append(mk("compute_g_from_k",
                  lambda: ((ST.symarray("k", (3, 1)), ST.symarray("omega", (1,))), dict(wedge=ST.sym("wedge"), chi=ST.sym("chi"))),
                  lambda a, kw, pc: G.g_from_k([_T(a[0][i, 0]) for i in range(3)], _T(a[1][0]), _T(kw["wedge"]), _T(kw["chi"]))))
    d = [z3.Real("dx"), z3.Real("dy"), z3.Real("dz")]
    def kargs():
        K.MODE = "sym"
        tth, eta = G.tth_eta(d)
        return (ST.lift([ST.S(tth)]), ST.lift([ST.S(eta)]), ST.sym("wvln")), {}
    def klem():
        R = smt.sqrt_f(d[0] * d[0] + d[1] * d[1] + d[2] * d[2])
        P = smt.sqrt_f(d[1] * d[1] + d[2] * d[2])
        return [z3.And(R > 0, R * R == d[0] * d[0] + d[1] * d[1] + d[2] * d[2]), z3.And(P > 0, P * P == d[1] * d[1] + d[2] * d[2]),
                smt.sqrt_f(P * P + d[0] * d[0]) == R]
    out.append(mk("compute_k_vectors", kargs, lambda a, kw, pc: G.kvec(d, _T(a[2])),
                  requires=[z3.Or(d[1] != 0, d[2] != 0), z3.Real("wvln") != 0], lemmas_fn=klem))
    # --- the three composing functions: argument wiring against uninterpreted callees (each callee is proved above)
    DET = ["y_center", "y_size", "tilt_y", "z_center", "z_size", "tilt_z", "tilt_x", "distance", "o11", "o12", "o21", "o22"]
    GEO = ["t_x", "t_y", "t_z", "wedge", "chi"]
    UF = {}

    def uf(name, n, k):
        key = (name, n, k)
        if key not in UF:
            UF[key] = z3.Function("%s_%d" % (name, k), *([smt.R] * n + [smt.R]))
        return UF[key]

    def stub(name, order, nout, shape):
        def f(*a, **kw):
            vals = [_T(x[0] if hasattr(x, "__len__") and not isinstance(x, ST.S) and getattr(x, "ndim", 1) == 1 else x) for x in a if not (hasattr(x, "ndim") and x.ndim == 2)]
            for x in a:
                if hasattr(x, "ndim") and x.ndim == 2:
                    vals += [_T(x[i, 0]) for i in range(x.shape[0])]
            vals += [_T(kw[k]) for k in order]
            res = [ST.S(uf(name, len(vals), j)(*vals)) for j in range(nout)]
            import numpy as _onp
            if shape == "pair":
                a0, a1 = _onp.empty(1, dtype=object), _onp.empty(1, dtype=object)
                a0[0], a1[0] = res[0], res[1]
                return a0, a1
            out = _onp.empty((3, 1), dtype=object)
            for j in range(3):
                out[j, 0] = res[j]
            return out
        return f

    def mkw(fname, args, spec, stubs):
        def gen(ctx):
            pbp = repo_module("ImageD11.sinograms.point_by_point")
            fn = getattr(pbp, fname)
            fn = getattr(fn, "py_func", fn)
            return trace_obligations("py:point_by_point." + fname + "[wiring]", fn, [pbp], args, spec, prop="C01", extra=stubs)
        return GenUnit("py:point_by_point." + fname + "[wiring]", gen, "trace")
    s_xyz = stub("pbp_xyz_lab", DET, 3, "vec")
    s_tte = stub("pbp_tth_eta_from_xyz", GEO, 2, "pair")
    s_k = stub("pbp_k_vectors", [], 3, "vec")
    s_g = stub("pbp_g_from_k", [], 3, "vec")

    def tth_eta_args():
        kw = {k: ST.sym(k) for k in DET + GEO}
        return (ST.symarray("sc", (1,)), ST.symarray("fc", (1,)), ST.symarray("omega", (1,))), kw

    def tth_eta_wiring(a, kw, pc):
        xyz = s_xyz(a[0], a[1], **{k: kw[k] for k in DET})
        t, e = s_tte(xyz, a[2], **{k: kw[k] for k in GEO})
        return [t[0], e[0]]
    out.append(mkw("compute_tth_eta", tth_eta_args, tth_eta_wiring, {"compute_xyz_lab": s_xyz, "compute_tth_eta_from_xyz": s_tte}))

    def gv_args():
        return (ST.symarray("tth", (1,)), ST.symarray("eta", (1,)), ST.symarray("omega", (1,)), ST.sym("wvln")), dict(wedge=ST.sym("wedge"), chi=ST.sym("chi"))

    def s_g2(k, omega, wedge, chi):
        return s_g(k, omega, wedge, chi)
    out.append(mkw("compute_g_vectors", gv_args, lambda a, kw, pc: s_g2(s_k(a[0], a[1], a[3]), a[2], kw["wedge"], kw["chi"]),
                   {"compute_k_vectors": s_k, "compute_g_from_k": s_g2}))
    # compute_gve: the detector distance seen from a voxel at xpos is distance - xpos; everything else is handed through
    s_te = stub("pbp_tth_eta", DET + GEO, 2, "pair")
    s_gv = stub("pbp_g_vectors", ["wedge", "chi"], 3, "vec")

    def gve_args():
        names = ["distance", "y_center", "y_size", "tilt_y", "z_center", "z_size", "tilt_z", "tilt_x", "o11", "o12", "o21", "o22",
                 "t_x", "t_y", "t_z", "wedge", "chi", "wavelength"]
        return (ST.symarray("sc", (1,)), ST.symarray("fc", (1,)), ST.symarray("omega", (1,)), ST.sym("xpos")) + tuple(ST.sym(n) for n in names), {}

    def gve_wiring(a, kw, pc):
        names = ["distance", "y_center", "y_size", "tilt_y", "z_center", "z_size", "tilt_z", "tilt_x", "o11", "o12", "o21", "o22",
                 "t_x", "t_y", "t_z", "wedge", "chi", "wavelength"]
        p = dict(zip(names, a[4:]))
        p["distance"] = p["distance"] - a[3]
        t, e = s_te(a[0], a[1], a[2], **{k: p[k] for k in DET + GEO})
        return s_gv(t, e, a[2], p["wavelength"], wedge=p["wedge"], chi=p["chi"])
    out.append(mkw("compute_gve", gve_args, gve_wiring, {"compute_tth_eta": s_te, "compute_g_vectors": s_gv}))
    return out


def units():
    from verif.units import LemmaUnit
    return [GenUnit("py:transform.detector_rotation_matrix", u_detector_rotation_matrix, "trace"),
            GenUnit("py:transform.compute_xyz_lab", u_compute_xyz_lab, "trace"),
            GenUnit("py:transform.compute_grain_origins", u_compute_grain_origins, "trace"),
            GenUnit("py:transform.compute_tth_eta_from_xyz", u_compute_tth_eta_from_xyz, "trace"),
            GenUnit("py:transform.compute_g_from_k", u_compute_g_from_k, "trace"),
            GenUnit("py:transform.compute_k_vectors[k-lemma]", u_k_lemma, "trace"),
            GenUnit("py:transform.Ctransform", u_ctransform, "trace"),
            GenUnit("py:columnfile.updateGeometry[fast=True]", _update_geometry_unit(True), "trace"),
            GenUnit("py:columnfile.updateGeometry[fast=False]", _update_geometry_unit(False), "trace"),
            GenUnit("py:columnfile.updateGV[translation from parameters]", _update_gv_unit(False), "trace"),
            GenUnit("py:columnfile.updateGV[translation given]", _update_gv_unit(True), "trace"),
            LemmaUnit("rotation_preserves_norm", u_norm_lemma)] + pbp_units()
