"""C19, reconstruction clauses: bounded stand-in on the real iradon / run_iradon (FFT filtering, interpolation and python threads are
outside the engines).  Never counted as proved."""
import numpy as np
from verif.tunits import repo_module


def bounded_recon(ctx):
    geometry = repo_module("ImageD11.sinograms.geometry")
    ri = repo_module("ImageD11.sinograms.roi_iradon")
    rng = np.random.RandomState(ctx.seed)
    big = ctx.tier == "thorough"
    fails, ev, samples = [], 0, []

    def fail(name, **kw):
        if len(fails) < 8:
            fails.append(dict(name=name, **kw))

    # ---- worker-count independence, ROI restriction, linearity on random sinograms
    for ny, nang, full in [(31, 37, False), (32, 60, True), (50, 91, True)] + ([(65, 181, False), (40, 360, True)] if big else []):
        theta = np.linspace(0, 360 if full else 180, nang, endpoint=False)
        s1, s2 = rng.rand(ny, nang), rng.rand(ny, nang)
        shifts = np.full(s1.shape, 1.7)
        kw = dict(theta=theta, output_size=ny + 6, projection_shifts=shifts, filter_name="hamming")
        base = ri.iradon(s1, workers=1, **kw)
        scale = np.abs(base).max()
        for w in (2, 3, 5, 7, 16):
            ev += 1
            r = ri.iradon(s1, workers=w, **kw)
            if not np.allclose(r, base, atol=1e-9 * scale, rtol=0):
                fail("iradon result depends on the number of workers", ny=ny, nangles=nang, workers=w, maxdiff=float(np.abs(r - base).max()))
        for k in range(3):
            ev += 1
            mask = rng.rand(ny + 6, ny + 6) < (0.05, 0.3, 0.9)[k]
            for w in (1, 4):
                r = ri.iradon(s1, workers=w, mask=mask, **kw)
                if not (np.allclose(r[mask], base[mask], atol=1e-9 * scale, rtol=0) and (r[~mask] == 0).all()):
                    fail("iradon restricted to a mask differs from the full reconstruction on the mask (or is non-zero outside)",
                         ny=ny, nangles=nang, workers=w, fill=(0.05, 0.3, 0.9)[k])
        ev += 1
        a, b = 2.5, -0.75
        r12 = ri.iradon(a * s1 + b * s2, workers=1, **kw)
        r2 = ri.iradon(s2, workers=1, **kw)
        if not np.allclose(r12, a * base + b * r2, atol=1e-9 * scale * 4, rtol=0):
            fail("iradon is not linear in the sinogram", ny=ny, nangles=nang, maxdiff=float(np.abs(r12 - a * base - b * r2).max()))
        # run_iradon passes workers and mask through
        ev += 1
        ra = ri.run_iradon(s1, theta, pad=6, shift=1.7, workers=1)
        rb = ri.run_iradon(s1, theta, pad=6, shift=1.7, workers=3)
        if not np.allclose(ra, rb, atol=1e-9 * np.abs(ra).max(), rtol=0):
            fail("run_iradon result depends on the number of workers", ny=ny, nangles=nang)
    # ---- a point-like grain reconstructs where the geometry predicts (the construction of test_geometry.TestFullLoop)
    ystep = 10.0
    cases = []
    for ny in (86, 85):                       # even and odd sinogram heights
        for full in (True, False):
            for y0off in (0.0, -4.3, 7.5) + ((-10.0, 10.0) if big else ()):
                for k in range(2 if not big else 5):
                    cases.append((ny, full, y0off, k))
    for ny, full, y0off, k in cases:
        ymin = 1000.0
        ymax = ymin + (ny - 1) * ystep
        ybincens = np.linspace(ymin, ymax, ny)
        y0 = 0.5 * (ymin + ymax) + y0off * ystep
        # sample position inside the disc that stays in the scanned range for every omega
        rmax = min(y0 - ymin, ymax - y0) - 3 * ystep
        rad, ang = rng.uniform(0.1, 0.95) * rmax, rng.uniform(0, 2 * np.pi)
        sx, sy = rad * np.cos(ang), rad * np.sin(ang)
        omega = np.arange(0, 361 if full else 181, 1.0)
        dty = geometry.dty_values_grain_in_beam(sx, sy, y0, omega)
        dtyi = geometry.dty_to_dtyi(dty, ystep, ybincens[0])
        ii = np.arange(ny)[:, None]
        sino = 1 / (50 * np.cbrt(np.abs(ii - dtyi[None, :])) + 0.01)
        shift, pad = geometry.sino_shift_and_pad(y0, ny, ymin, ystep)
        recon = ri.run_iradon(sino, omega, pad=pad, shift=shift)
        ev += 1
        ri_c, rj_c = np.array(np.where(recon == recon.max()))[:, 0]
        ri_p, rj_p = geometry.sample_to_recon(sx, sy, recon.shape, ystep)
        d = float(np.hypot(ri_c - ri_p, rj_c - rj_p))
        if len(samples) < 4:
            samples.append(dict(ny=ny, full=full, y0_offset_steps=y0off, sx=round(sx, 2), sy=round(sy, 2), distance_px=round(d, 3)))
        if d > 1.5:
            fail("point grain reconstructs %.2f px from the predicted reconstruction coordinate" % d, ny=ny, full_turn=full,
                 y0_offset_steps=y0off, sx=sx, sy=sy, found=[int(ri_c), int(rj_c)], predicted=[float(ri_p), float(rj_p)])
    return dict(evaluations=ev, distinct_nontrivial=ev, samples=samples, failures=fails,
                rule="random sinograms (3, thorough 5 shapes) x workers {2,3,5,7,16} / 3 ROI masks / one linear combination; point grains: "
                     "sinogram heights 86 and 85, 0-360 and 0-180, y0 offsets {0,-4.3,7.5} (thorough +-10) steps, 2 (thorough 5) random positions each")
