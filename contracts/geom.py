"""Reference geometry of ImageD11 (C01/C02), written from the documented formulas:
   detector: R = R3(tilt_x).R2(tilt_y).R1(tilt_z), flip matrix O, centre/size, distance along x
   tth = atan2(sqrt(dy^2+dz^2), dx), eta = atan2(-dy, dz) of d = xyz - origin   (degrees)
   k = (d/|d| - e_x)/lambda ;  g = R(omega).C(chi).W(wedge).k  with the matrices of the comment block of
   transform.compute_g_from_k ; grain origin o = W^-1.C^-1.R(omega)^-1.t
Generic over the interpretation (z3 terms or exact rationals) through contract.sym_or_conc.
"""
import math
from fractions import Fraction
import z3
from verif import smt, contract as K

PIQ = Fraction(math.pi)            # the double closest to pi, as C's PI macro and numpy's radians/degrees use it
sin_ = K.sym_or_conc("sin")
cos_ = K.sym_or_conc("cos")
atan2_ = K.sym_or_conc("atan2")
sqrt_ = K.sym_or_conc("sqrt")
rdiv = K.sym_or_conc("rdiv_")


def B(v):
    """name the components of an intermediate vector (see contract.block)"""
    return [K.block(x) for x in v]


def _c(fr):
    return z3.RealVal(str(fr)) if K.MODE == "sym" else fr


def rad(x):
    return x * _c(PIQ / 180)


def deg(x):
    return x * _c(Fraction(180) / PIQ)


def sind(x):
    return sin_(rad(x))


def cosd(x):
    return cos_(rad(x))


def matvec(M, v):
    return [sum(M[i][j] * v[j] for j in range(3)) for i in range(3)]


def matmat(A, B):
    return [[sum(A[i][l] * B[l][j] for l in range(3)) for j in range(3)] for i in range(3)]


def det_rot(tilt_x, tilt_y, tilt_z):
    """tilts in radians (as the parameter files store them)"""
    cz, sz, cy, sy, cx, sx = cos_(tilt_z), sin_(tilt_z), cos_(tilt_y), sin_(tilt_y), cos_(tilt_x), sin_(tilt_x)
    r1 = [[cz, -sz, 0], [sz, cz, 0], [0, 0, 1]]
    r2 = [[cy, 0, sy], [0, 1, 0], [-sy, 0, cy]]
    r3 = [[1, 0, 0], [0, cx, -sx], [0, sx, cx]]
    return matmat(matmat(r3, r2), r1)


def xyz_lab(sc, fc, rmat, o, cen, size, distance):
    """sc, fc: slow/fast detector coordinate; rmat 3x3; o = (o11,o12,o21,o22); cen=(z_center,y_center);
    size=(z_size,y_size); distance = (dx,dy,dz) offset (sample-detector distance along x)"""
    p0 = (sc - cen[0]) * size[0]
    p1 = (fc - cen[1]) * size[1]
    f0 = o[0] * p0 + o[1] * p1
    f1 = o[2] * p0 + o[3] * p1
    v = [0, f1, f0]
    r = matvec(rmat, v)
    return [r[0] + distance[0], r[1] + distance[1], r[2] + distance[2]]


def origin(omega, wedge, chi, t):
    """lab position of a grain at sample position t (omega already multiplied by omegasign), degrees"""
    co, so = cosd(omega), sind(omega)
    u = B([co * t[0] - so * t[1], so * t[0] + co * t[1], t[2]])
    cc, sc_ = cosd(chi), sind(chi)
    u = B([u[0], cc * u[1] - sc_ * u[2], sc_ * u[1] + cc * u[2]])
    cw, sw = cosd(wedge), sind(wedge)
    return B([cw * u[0] - sw * u[2], u[1], sw * u[0] + cw * u[2]])


def tth_eta(d):
    tth = deg(atan2_(sqrt_(d[1] * d[1] + d[2] * d[2]), d[0]))
    eta = deg(atan2_(-d[1], d[2]))
    return tth, eta


def kvec(d, wvln):
    m = sqrt_(d[0] * d[0] + d[1] * d[1] + d[2] * d[2])
    return B([rdiv(rdiv(d[0], m) - 1, wvln), rdiv(rdiv(d[1], m), wvln), rdiv(rdiv(d[2], m), wvln)])


def rotW(k, wedge):
    cw, sw = cosd(wedge), sind(wedge)
    return B([cw * k[0] + sw * k[2], k[1], -sw * k[0] + cw * k[2]])


def rotC(t, chi):
    cc, sc_ = cosd(chi), sind(chi)
    return B([t[0], cc * t[1] + sc_ * t[2], -sc_ * t[1] + cc * t[2]])


def rotR(t, omega):
    co, so = cosd(omega), sind(omega)
    return [co * t[0] + so * t[1], -so * t[0] + co * t[1], t[2]]


def g_from_k(k, omega, wedge, chi):
    """g = R(omega).C(chi).W(wedge).k"""
    return rotR(rotC(rotW(k, wedge), chi), omega)


def dot3(a, b):
    return a[0] * b[0] + a[1] * b[1] + a[2] * b[2]


def gvec(xyz, omega, wedge, chi, t, wvln):
    d = dvec(xyz, omega, wedge, chi, t)
    return g_from_k(kvec(d, wvln), omega, wedge, chi)


def geometry(xyz, omega, wedge, chi, t, wvln):
    """(tth, eta, ds, gx, gy, gz)"""
    d = dvec(xyz, omega, wedge, chi, t)
    tth, eta = tth_eta(d)
    k = kvec(d, wvln)
    ds = sqrt_(k[0] * k[0] + k[1] * k[1] + k[2] * k[2])
    g = g_from_k(k, omega, wedge, chi)
    return [tth, eta, ds] + g


def dvec(xyz, omega, wedge, chi, t):
    o = origin(omega, wedge, chi, t)
    return B([xyz[i] - o[i] for i in range(3)])


def dsq(xyz, omega, wedge, chi, t):
    d = dvec(xyz, omega, wedge, chi, t)
    return d[0] * d[0] + d[1] * d[1] + d[2] * d[2]


K.register_spec(geom_dvec=dvec, geom_dsq=dsq, geom_kvec=kvec, geom_g_from_k=g_from_k, geom_tth_eta=tth_eta)
K.register_spec(geom_xyz_lab=xyz_lab, geom_gvec=gvec, geom_geometry=geometry, geom_origin=origin, geom_det_rot=det_rot,
                sind=sind, cosd=cosd, rad=rad, deg=deg)
