"""Contract for /repo/src/splat.c (C20): g-vectors drawn into an rgba image."""
from verif.contract import cfn

DOT = lambda a, b, c, sc: "(u[%d]*%s*gve[t][0] + u[%d]*%s*gve[t][1] + u[%d]*%s*gve[t][2])" % (a, sc, b, sc, c, sc)
SC = "tdiv(w + h, 4)"
BIG = "1073741824"
cfn("splat.c:splat", lens={"rgba": "w*h*4", "gve": "ng", "u": "9"}, assigns=["rgba"],
    defined={"rgba": False}, outputs={"rgba": "0..w*h*4"},
    requires=["w >= 0", "h >= 0", "w*h*4 <= INT_MAX", "w <= 1048576", "h <= 1048576", "ng >= 0", "npx >= 0", "npx <= 1048576",
              "forall(0, ng, lambda t: And_(fabs(%s) < %s, fabs(%s) < %s, fabs(%s) < %s))"
              % (DOT(0, 1, 2, SC), BIG, DOT(3, 4, 5, SC), BIG, DOT(6, 7, 8, "64"), BIG)],
    wellformed="image of at most 2^20 x 2^20 pixels, projected g-vector coordinates below 2^30 in magnitude (they are converted to int)",
    loops={1: ["forall(0, i, lambda t: defined(rgba, t))"],
           2: ["forall(0, w*h*4, lambda t: defined(rgba, t))"],
           3: ["forall(0, w*h*4, lambda t: defined(rgba, t))", "0 <= i", "i < ng", "imx > npx", "imx < w - npx", "imy > npx", "imy < h - npx",
               "imz >= 0", "imz < 256", "isdef('imx')", "isdef('imy')", "isdef('imz')"],
           4: ["forall(0, w*h*4, lambda t: defined(rgba, t))", "0 <= i", "i < ng", "imx > npx", "imx < w - npx", "imy > npx", "imy < h - npx",
               "imz >= 0", "imz < 256", "-npx <= j", "j <= npx", "isdef('imx')", "isdef('imy')", "isdef('imz')"]},
    props=["C20"])
