"""Importing this package registers every sidecar contract."""
from . import specs  # noqa
from . import c_closest  # noqa
