"""Importing this package registers every sidecar contract."""
from . import specs  # noqa
from . import c_closest  # noqa
from . import geom  # noqa
from . import c_cdiffraction  # noqa
from . import c_blobs  # noqa
from . import c_connectedpixels  # noqa
from . import c_sparse  # noqa
from . import c_darkflat  # noqa
from . import c_splat  # noqa
from . import c_localmaxlabel  # noqa
