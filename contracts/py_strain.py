"""C10: finite strain tensors - the real ImageD11.finite_strain code run on abstract matrix symbols (verif.matmode)."""
import z3
from fractions import Fraction
from verif import smt, matmode as MMo
from verif.matmode import MM, Mat, mul, add, neg, smul, tr, inv, diag, vlog, spd, I, Z
from verif.units import GenUnit, make_ob, LemmaUnit
from verif.tunits import repo_module

MS = [-1, -0.5, 0, 0.5, 1, 1.5, 2]


def _run(fs, F_given=None):
    """execute the real class on matrix symbols; returns dict of terms and the svd facts"""
    npmm = MMo.NPMM()
    saved = fs.np
    fs.np = npmm
    try:
        ubi, ub0 = MM(z3.Const("UBI", Mat)), MM(z3.Const("UB0", Mat))
        d = fs.DeformationGradientTensor(ubi, ub0)
        if F_given is not None:
            d.F = F_given
        out = dict(F=d.F, d=d, np=npmm)
        out["E_ref"] = {m: d.finite_strain_ref(m) for m in MS}
        out["E_lab"] = {m: d.finite_strain_lab(m) for m in MS}
        V, R, S = d.VRS
        out.update(V=V, R=R, S=S)
        out["svd"] = npmm.svds[0] if npmm.svds else None
    finally:
        fs.np = saved
    return out


def cancel_lemmas(Xs, ax, obs, tag):
    """for each orthogonal X: X^T.(X.A) = A and X.(X^T.A) = A for all A - proved here from orthogonality and associativity,
    then used as rewrite rules by the other obligations"""
    A = z3.Const("A", Mat)
    out = []
    for nm, X, orth in Xs:
        l1 = z3.ForAll([A], mul(tr(X), mul(X, A)) == A)
        l2 = z3.ForAll([A], mul(X, mul(tr(X), A)) == A)
        Ask = z3.Const("A!sk", Mat)
        obs.append(make_ob("py:finite_strain.%s.cancel_left[%s]" % (tag, nm), MMo.core_axioms() + orth,
                           z3.And(mul(tr(X), mul(X, Ask)) == Ask, mul(X, mul(tr(X), Ask)) == Ask), kind="matrix",
                           fn="py:finite_strain", prop="C10"))
        out += [l1, l2]
    return out


def gen_strain(ctx):
    fs = repo_module("ImageD11.finite_strain")
    o = _run(fs)
    ax = MMo.axioms()
    facts = o["np"].facts
    F, V, R, S = o["F"].t, o["V"].t, o["R"].t, o["S"].t
    Fsvd, w, s, vh = o["svd"]
    D = diag(s.t)
    obs = []
    orth_w = [mul(tr(w.t), w.t) == I, mul(w.t, tr(w.t)) == I]
    orth_vh = [mul(tr(vh.t), vh.t) == I, mul(vh.t, tr(vh.t)) == I]
    facts = facts + cancel_lemmas([("w", w.t, orth_w), ("vh", vh.t, orth_vh)], ax, obs, "polar")

    def ob(name, goal, extra=()):
        obs.append(make_ob("py:finite_strain." + name, ax + facts + list(extra), goal, kind="matrix", fn="py:finite_strain", prop="C10"))
    # the deformation gradient is built as documented, the svd is taken of it
    ob("F_definition", F == mul(tr(z3.Const("UBI", Mat)), tr(z3.Const("UB0", Mat))))
    ob("svd_of_F", Fsvd.t == F)
    # polar decomposition
    ob("R_orthogonal", z3.And(mul(tr(R), R) == I, mul(R, tr(R)) == I))
    ob("S_symmetric", tr(S) == S)
    ob("V_symmetric", tr(V) == V)
    ob("F=R.S", F == mul(R, S))
    ob("F=V.R", F == mul(V, R))
    ob("V=R.S.Rt", V == mul(R, mul(S, tr(R))))
    def power(M, n):
        if n < 0:
            M, n = inv(M), -n
        out = None
        for _ in range(n):
            out = M if out is None else mul(out, M)
        return out if out is not None else I
    for m in MS:
        m2 = int(round(2 * m))
        Er, El = o["E_ref"][m].t, o["E_lab"][m].t
        tag = "m=%s" % m
        ob("E_ref_symmetric[%s]" % tag, tr(Er) == Er)
        ob("E_lab_symmetric[%s]" % tag, tr(El) == El)
        ob("E_lab=R.E_ref.Rt[%s]" % tag, El == mul(R, mul(Er, tr(R))))
        if m2 == 0:
            ob("E_ref=log(S)[%s]" % tag, Er == mul(tr(vh.t), mul(diag(vlog(s.t)), vh.t)))
        else:
            ob("E_ref=SethHill[%s]" % tag, Er == smul(z3.RealVal(str(Fraction(1, m2))), add(power(S, m2), neg(I))))
            ob("E_lab=SethHill(V)[%s]" % tag, El == smul(z3.RealVal(str(Fraction(1, m2))), add(power(V, m2), neg(I))))
    return obs, dict(paths=len(MS))


def gen_objectivity(ctx):
    """E_ref(Q.F) == E_ref(F) for every rotation Q: by algebra on the paths that do not use the svd (m integer), and with the
    (trusted) uniqueness of the positive definite square root on the svd paths"""
    fs = repo_module("ImageD11.finite_strain")
    ax = MMo.axioms()
    A, B = z3.Consts("A B", Mat)
    uniq = z3.ForAll([A, B], z3.Implies(z3.And(spd(A), spd(B), mul(A, A) == mul(B, B)), A == B))
    o1 = _run(fs)
    Q = z3.Const("Q", Mat)
    qf = [mul(tr(Q), Q) == I, mul(Q, tr(Q)) == I]
    o2 = _run(fs, F_given=MM(mul(Q, o1["F"].t)))
    # rename the svd symbols of the second run
    sub = [(z3.Const("w0", Mat), z3.Const("w0q", Mat)), (z3.Const("vh0", Mat), z3.Const("vh0q", Mat)),
           (z3.Const("s0", MMo.Vec), z3.Const("s0q", MMo.Vec))]
    f2 = [z3.substitute(f, *sub) for f in o2["np"].facts]
    facts = o1["np"].facts + f2 + qf
    obs = []
    w0, vh0, w0q, vh0q = [z3.Const(n, Mat) for n in ("w0", "vh0", "w0q", "vh0q")]
    def orth(X):
        return [mul(tr(X), X) == I, mul(X, tr(X)) == I]
    facts = facts + cancel_lemmas([("w", w0, orth(w0)), ("vh", vh0, orth(vh0)), ("wq", w0q, orth(w0q)), ("vhq", vh0q, orth(vh0q)),
                                   ("Q", Q, qf)], ax, obs, "objectivity")
    S1 = o1["S"].t
    S2 = z3.substitute(o2["S"].t, *sub)
    obs.append(make_ob("py:finite_strain.objectivity.FtF", ax + facts, mul(tr(o2["F"].t), o2["F"].t) == mul(tr(o1["F"].t), o1["F"].t),
                       kind="matrix", fn="py:finite_strain", prop="C10"))
    F1, F2 = o1["F"].t, o2["F"].t
    F2s = z3.substitute(F2, *sub)
    obs.append(make_ob("py:finite_strain.objectivity.S1.S1", ax + facts, mul(S1, S1) == mul(tr(F1), F1), kind="matrix",
                       fn="py:finite_strain", prop="C10"))
    # for the rotated gradient use its own svd facts only (F2 = wq.D.vhq)
    vh0q_, w0q_, s0q_ = z3.Const("vh0q", Mat), z3.Const("w0q", Mat), z3.Const("s0q", MMo.Vec)
    Fq = z3.Const("Fq", Mat)
    own = [Fq == mul(w0q_, mul(diag(s0q_), vh0q_))] + cancel_lemmas([("wq", w0q_, orth(w0q_)), ("vhq", vh0q_, orth(vh0q_))], ax, [], "x")
    obs.append(make_ob("py:finite_strain.objectivity.S2.S2", ax + own, mul(S2, S2) == mul(tr(Fq), Fq), kind="matrix",
                       fn="py:finite_strain", prop="C10"))
    obs.append(make_ob("py:finite_strain.objectivity.S1S1=S2S2", ax + facts + [mul(S1, S1) == mul(tr(F1), F1), mul(S2, S2) == mul(tr(F2s), F2s),
                                                                               mul(tr(F2s), F2s) == mul(tr(F1), F1)],
                       mul(S1, S1) == mul(S2, S2), kind="matrix", fn="py:finite_strain", prop="C10"))
    obs.append(make_ob("py:finite_strain.objectivity.S_unique", ax + facts + [uniq, mul(S1, S1) == mul(S2, S2)], S1 == S2,
                       kind="matrix", fn="py:finite_strain", prop="C10"))
    for m in MS:
        m2 = int(round(2 * m))
        e1 = o1["E_ref"][m].t
        e2 = z3.substitute(o2["E_ref"][m].t, *sub)
        if m2 == 0:
            continue   # log(S) is expressed through vh and s of the particular svd; covered by S_unique + log being a function of S (not expressible here)
        extra = [S1 == S2] if m2 % 2 else []
        obs.append(make_ob("py:finite_strain.objectivity.E_ref[m=%s]" % m, ax + facts + extra, e1 == e2, kind="matrix",
                           fn="py:finite_strain", prop="C10"))
    # pure rotation (cell equals the reference cell): F^T.F = I => S = I => E = 0
    rot = [mul(tr(o1["F"].t), o1["F"].t) == I, spd(I)]
    obs.append(make_ob("py:finite_strain.zero_strain.S=I", ax + o1["np"].facts + rot + [uniq, mul(S1, S1) == mul(tr(o1["F"].t), o1["F"].t)],
                       S1 == I, kind="matrix", fn="py:finite_strain", prop="C10"))
    for m in MS:
        m2 = int(round(2 * m))
        if m2 == 0:
            continue
        obs.append(make_ob("py:finite_strain.zero_strain.E_ref[m=%s]" % m, ax + o1["np"].facts + rot + [S1 == I, inv(I) == I],
                           o1["E_ref"][m].t == Z, kind="matrix", fn="py:finite_strain", prop="C10"))
    return obs, dict(paths=2 * len(MS))


def units():
    return [GenUnit("py:finite_strain.DeformationGradientTensor", gen_strain, "trace"),
            GenUnit("py:finite_strain.objectivity", gen_objectivity, "trace")]
