"""C04 / C10: every copy of the Busing-Levy B formula, of "cell from metric tensor" and of the metric / inverse helpers is
executed symbolically and proved equal to one reference written from the documented formulas.

Reference (spec) functions work on symbolic scalars (verif.symtrace.S); the 3x3 inverse is the adjugate formula, which is the
assumed contract of numpy.linalg.inv used by the tracer as well."""
import numpy as np
import z3
from verif import smt, symtrace as ST, contract as K
from verif.units import GenUnit
from verif.tunits import repo_module, trace_obligations
from verif.extract import extract

_T = ST.term
NP = ST.NPShim()


def spec_metric(cell):
    a, b, c, al, be, ga = cell
    ca, cb, cg = al.radians().cos(), be.radians().cos(), ga.radians().cos()
    return ST.lift([[a * a, a * b * cg, a * c * cb], [a * b * cg, b * b, b * c * ca], [a * c * cb, b * c * ca, c * c]])


def spec_B(cell):
    """Busing & Levy B from the cell: reciprocal metric gi = inv(g); a* = sqrt(gi00) ...; beta*, gamma* from gi;
       B = [[a*, b* cos(gamma*), c* cos(beta*)], [0, b* sin(gamma*), -c* sin(beta*) cos(alpha)], [0, 0, 1/c]]"""
    g = spec_metric(cell)
    gi = NP.linalg.inv(g)
    astar, bstar, cstar = gi[0, 0].sqrt(), gi[1, 1].sqrt(), gi[2, 2].sqrt()
    betas = (gi[0, 2] / astar / cstar).arccos().degrees()
    gammas = (gi[0, 1] / astar / bstar).arccos().degrees()
    ca = cell[3].radians().cos()
    z = ST.S(z3.RealVal(0))
    return ST.lift([[astar, bstar * gammas.radians().cos(), cstar * betas.radians().cos()],
                    [z, bstar * gammas.radians().sin(), -cstar * betas.radians().sin() * ca],
                    [z, z, 1 / cell[2]]]), g, gi


def spec_cell_from_metric(G):
    a, b, c = G[0, 0].sqrt(), G[1, 1].sqrt(), G[2, 2].sqrt()
    return [a, b, c, (G[1, 2] / b / c).arccos().degrees(), (G[0, 2] / a / c).arccos().degrees(), (G[0, 1] / a / b).arccos().degrees()]


def _cell():
    return [ST.sym(n) for n in ("a", "b", "c", "alpha", "beta", "gamma")]


def _mk(name, modules_fn, run_fn, args, spec, prop="C04", extra_fn=None, requires_fn=None, replay_fn=None):
    def gen(ctx):
        mods = modules_fn()
        extra = extra_fn(mods) if extra_fn else None
        req = requires_fn() if requires_fn else ()
        obs, info = trace_obligations(name, lambda *a, **k: run_fn(mods, *a, **k), mods, args, spec, prop=prop, extra=extra, requires=req)
        if replay_fn is not None:
            info = dict(info, replayer=lambda ur, ob, model, seed: replay_fn(mods, ob, model, seed))
        return obs, info
    return GenUnit(name, gen, "trace")


def _num_B(cell):
    """numeric Busing-Levy B (independent of the code under test; used only to replay counterexamples)"""
    a, b, c = cell[:3]
    ca, cb, cg = [np.cos(np.radians(x)) for x in cell[3:]]
    g = np.array([[a * a, a * b * cg, a * c * cb], [a * b * cg, b * b, b * c * ca], [a * c * cb, b * c * ca, c * c]])
    gi = np.linalg.inv(g)
    As, Bs, Cs = np.sqrt(np.diag(gi))
    betas, gammas = np.arccos(gi[0, 2] / As / Cs), np.arccos(gi[0, 1] / As / Bs)
    return np.array([[As, Bs * np.cos(gammas), Cs * np.cos(betas)], [0, Bs * np.sin(gammas), -Cs * np.sin(betas) * ca], [0, 0, 1 / c]])


def _replay_strain(call, kind):
    """replayer for the strain wiring units: the real function on seeded random (ubi, reference cell) against the Biot strain of
    F = ubi^T . B0^T computed independently with numpy (V - I in the sample frame, S - I in the crystal frame)"""
    def rp(mods, ob, model, seed):
        rng = np.random.RandomState(seed)
        for t in range(40):
            cell = [rng.uniform(3, 8), rng.uniform(3, 8), rng.uniform(3, 8), rng.uniform(70, 110), rng.uniform(70, 110), rng.uniform(70, 110)]
            q, _ = np.linalg.qr(rng.randn(3, 3))
            if np.linalg.det(q) < 0:
                q[0] *= -1
            stretch = np.eye(3) + 0.02 * rng.randn(3, 3)
            ubi = np.linalg.inv(q.dot(stretch).dot(_num_B(cell)))
            F = ubi.T.dot(_num_B(cell).T)
            w, sv, vh = np.linalg.svd(F)
            X = w.dot(np.diag(sv)).dot(w.T) if kind == "V" else vh.T.dot(np.diag(sv)).dot(vh)
            want = X - np.eye(3)
            try:
                got = np.asarray(call(mods, ubi, np.array(cell)), float)
            except Exception as e:
                return dict(confirmed=False, why="real function raised %s: %s" % (type(e).__name__, e))
            if not np.allclose(got, want, atol=1e-7):
                return dict(confirmed=True, source="seeded-random#%d" % t, inputs=dict(ubi=ubi.tolist(), cell=cell),
                            observed=got.tolist(), expected=want.tolist())
        return dict(confirmed=False, why="the real function agrees with the independent numpy reference on 40 seeded random (ubi, cell)")
    return rp


def _gu(mod, name):
    return extract(mod, name)


def units_c04():
    U = []
    uc = lambda: [repo_module("ImageD11.unitcell")]
    tm = lambda: [repo_module("ImageD11.sinograms.tensor_map")]
    pbp = lambda: [repo_module("ImageD11.sinograms.point_by_point")]
    ix = lambda: [repo_module("ImageD11.indexing")]
    gr = lambda: [repo_module("ImageD11.grain"), repo_module("ImageD11.unitcell")]
    # --- B, g, gi of the unitcell class
    def run_uc(m, cell):
        u = m[0].unitcell(cell, "P")
        return [u.B, u.g, u.gi]
    U.append(_mk("py:unitcell.unitcell.__init__[B,g,gi]", uc, run_uc, lambda: ((_cell(),), {}),
                 lambda a, kw, pc: list(spec_B(a[0])), extra_fn=lambda m: {"inv": NP.linalg.inv}))
    # --- vectorised copies
    def run_tm_b(m, cell):
        res = NP.zeros((3, 3))
        _gu(m[0], "unitcell_to_b")(ST.lift(cell), None, res)
        return res
    U.append(_mk("py:tensor_map.unitcell_to_b", tm, run_tm_b, lambda: ((_cell(),), {}), lambda a, kw, pc: spec_B(a[0])[0]))
    def run_pbp_u(m, ubi, cell):
        return m[0].ubi_and_ucell_to_u.py_func(ubi, ST.lift(cell))
    U.append(_mk("py:point_by_point.ubi_and_ucell_to_u", pbp, run_pbp_u, lambda: ((ST.symarray("ubi", (3, 3)), _cell()), {}),
                 lambda a, kw, pc: np.dot(spec_B(a[1])[0], a[0]).T))
    def run_tm_u(m, ubi, b):
        res = NP.zeros((3, 3))
        _gu(m[0], "ubi_and_b_to_u")(ubi, b, res)
        return res
    U.append(_mk("py:tensor_map.ubi_and_b_to_u", tm, run_tm_u, lambda: ((ST.symarray("ubi", (3, 3)), ST.symarray("B", (3, 3))), {}),
                 lambda a, kw, pc: np.dot(a[1], a[0]).T))
    # --- metric tensors and inverse
    def run_mt(m, ubi):
        res = NP.zeros((3, 3))
        _gu(m[0], "ubi_to_mt")(ubi, res)
        return res
    U.append(_mk("py:tensor_map.ubi_to_mt", tm, run_mt, lambda: ((ST.symarray("ubi", (3, 3)),), {}),
                 lambda a, kw, pc: np.dot(a[0], a[0].T)))
    def run_inv(m, mat):
        res = NP.zeros((3, 3))
        _gu(m[0], "fast_invert")(mat, res)
        return res
    U.append(_mk("py:tensor_map.fast_invert", tm, run_inv, lambda: ((ST.symarray("m", (3, 3)),), {}),
                 lambda a, kw, pc: NP.linalg.inv(a[0])))
    # --- cell from metric tensor: four copies
    def run_tm_cell(m, mt):
        res = NP.zeros((6,))
        _gu(m[0], "mt_to_unitcell")(mt, None, res)
        return res
    U.append(_mk("py:tensor_map.mt_to_unitcell", tm, run_tm_cell, lambda: ((ST.symarray("G", (3, 3)),), {}),
                 lambda a, kw, pc: spec_cell_from_metric(a[0])))
    U.append(_mk("py:point_by_point.ubi_to_unitcell", pbp, lambda m, ubi: m[0].ubi_to_unitcell.py_func(ubi),
                 lambda: ((ST.symarray("ubi", (3, 3)),), {}), lambda a, kw, pc: spec_cell_from_metric(np.dot(a[0], a[0].T))))
    U.append(_mk("py:indexing.ubitocellpars", ix, lambda m, ubi: list(m[0].ubitocellpars(ubi)),
                 lambda: ((ST.symarray("ubi", (3, 3)),), {}), lambda a, kw, pc: spec_cell_from_metric(np.dot(a[0], a[0].T))))
    # --- the grain object: UB = inv(ubi), mt, rmt, unitcell, B (through the unitcell class), U = (B.ubi)^T
    def run_grain(m, ubi):
        g = m[0].grain(ubi)
        return [g.UB, g.mt, g.rmt, g.unitcell, g.B, g.U]
    def spec_grain(a, kw, pc):
        ubi = a[0]
        mt = np.dot(ubi, ubi.T)
        cell = spec_cell_from_metric(mt)
        B = spec_B(cell)[0]
        return [NP.linalg.inv(ubi), mt, NP.linalg.inv(mt), cell, B, np.dot(B, ubi).T]
    U.append(_mk("py:grain.grain[UB,mt,rmt,unitcell,B,U]", gr, run_grain, lambda: ((ST.symarray("ubi", (3, 3)),), {}), spec_grain,
                 extra_fn=lambda m: {"inv": NP.linalg.inv},
                 requires_fn=lambda: [_T(NP.linalg.det(ST.symarray("ubi", (3, 3)))) >= 0]))
    return U


def units_c10_copies():
    """the inlined B copies and F = ubi^T . B0^T of the vectorised strain functions"""
    tm = lambda: [repo_module("ImageD11.sinograms.tensor_map")]
    U = []
    for fname, kind in (("ubi_and_unitcell_to_eps_sample", "V"), ("ubi_and_unitcell_to_eps_crystal", "S")):
        def run(m, ubi, cell, fname=fname):
            res = NP.zeros((3, 3))
            _gu(m[0], fname)(ubi, ST.lift(cell), res)
            F, w, s, vh = ST.Tracer.current.svd_calls[-1]
            return [F, res]
        def spec(a, kw, pc, kind=kind):
            ubi, cell = a
            F = np.dot(ubi.T, spec_B(cell)[0].T)
            k = 0
            w, s, vh = ST.symarray("svd%d_w" % k, (3, 3)), ST.symarray("svd%d_s" % k, (3,)), ST.symarray("svd%d_vh" % k, (3, 3))
            if kind == "V":
                X = np.dot(w, np.dot(NP.diag(s), w.T))
            else:
                X = np.dot(vh.T, np.dot(NP.diag(s), vh))
            return [F, X - ST.lift(np.eye(3).astype(int))]
        def native(m, ubi, cell, fname=fname):
            res = np.zeros((3, 3))
            _gu(m[0], fname)(ubi, cell, res)
            return res
        U.append(_mk("py:tensor_map." + fname, tm, run, lambda: ((ST.symarray("ubi", (3, 3)), _cell()), {}), spec, prop="C10",
                     replay_fn=_replay_strain(native, kind)))
    return U


def units_c10_frames():
    """tensor_crystal_to_sample / tensor_sample_to_crystal: E_sample = U.E_crystal.U^T and back (symbolic E and U, no orthogonality needed)"""
    tm = lambda: [repo_module("ImageD11.sinograms.tensor_map")]
    U = []
    for fname, spec in (("tensor_crystal_to_sample", lambda a, kw, pc: np.dot(a[1], np.dot(a[0], a[1].T))),
                        ("tensor_sample_to_crystal", lambda a, kw, pc: np.dot(a[1].T, np.dot(a[0], a[1])))):
        def run(m, E, Umat, fname=fname):
            res = NP.zeros((3, 3))
            _gu(m[0], fname)(E, Umat, res)
            return res
        U.append(_mk("py:tensor_map." + fname, tm, run, lambda: ((ST.symarray("E", (3, 3)), ST.symarray("U", (3, 3))), {}), spec, prop="C10"))
    return U


def b_c04_numeric(ctx):
    """bounded: the algebraic consistency clauses of C04 evaluated on the real (compiled) functions for seeded random cells x rotations"""
    import numpy
    uc = repo_module("ImageD11.unitcell")
    gr = repo_module("ImageD11.grain")
    ix = repo_module("ImageD11.indexing")
    tm = repo_module("ImageD11.sinograms.tensor_map")
    rng = numpy.random.RandomState(ctx.seed)
    n = 60 if ctx.tier == "quick" else 600
    fails, samples, ev = [], [], 0

    def chk(name, ok, **info):
        if not ok and len(fails) < 6:
            fails.append(dict(name=name, **info))

    def rot():
        q = rng.normal(size=4)
        q /= numpy.linalg.norm(q)
        a, b, c, d = q
        return numpy.array([[a*a+b*b-c*c-d*d, 2*(b*c-a*d), 2*(b*d+a*c)], [2*(b*c+a*d), a*a-b*b+c*c-d*d, 2*(c*d-a*b)],
                            [2*(b*d-a*c), 2*(c*d+a*b), a*a-b*b-c*c+d*d]])
    cells = []
    for it in range(n):
        kind = it % 6
        a, b, c = rng.uniform(2, 12, 3)
        if kind == 0:
            cells.append([a, a, a, 90, 90, 90])
        elif kind == 1:
            cells.append([a, a, c, 90, 90, 120])
        elif kind == 2:
            cells.append([a, b, c, 90, rng.uniform(92, 125), 90])
        elif kind == 3:
            al = rng.uniform(60, 110)
            cells.append([a, a, a, al, al, al])
        else:
            while True:
                al, be, ga = rng.uniform(60, 120, 3)
                ca, cb, cg = numpy.cos(numpy.radians([al, be, ga]))
                if 1 - ca*ca - cb*cb - cg*cg + 2*ca*cb*cg > 0.05:
                    break
            cells.append([a, b, c, al, be, ga])
    tol = 1e-8
    for cell in cells:
        u = uc.unitcell(cell, "P")
        B = u.B
        ev += 1
        chk("BtB=G*", numpy.allclose(B.T.dot(B), numpy.linalg.inv(u.g), atol=tol), cell=cell)
        chk("B upper triangular, positive diagonal", abs(B[1, 0]) + abs(B[2, 0]) + abs(B[2, 1]) == 0 and (numpy.diag(B) > 0).all(), cell=cell)
        R = rot()
        ubi = numpy.linalg.inv(R.dot(B))
        g = gr.grain(ubi)
        chk("decompose: U == R", numpy.allclose(g.U, R, atol=1e-7), cell=cell)
        chk("decompose: cell", numpy.allclose(g.unitcell, cell, atol=1e-6), cell=cell)
        chk("U orthogonal det +1", numpy.allclose(g.U.dot(g.U.T), numpy.eye(3), atol=1e-7) and abs(numpy.linalg.det(g.U) - 1) < 1e-7, cell=cell)
        chk("U.B == inv(ubi) == UB", numpy.allclose(g.U.dot(g.B), numpy.linalg.inv(ubi), atol=1e-8) and numpy.allclose(g.UB, numpy.linalg.inv(ubi)), cell=cell)
        chk("mt.rmt == I", numpy.allclose(g.mt.dot(g.rmt), numpy.eye(3), atol=1e-7), cell=cell)
        chk("indexing.ubitocellpars", numpy.allclose(ix.ubitocellpars(ubi), cell, atol=1e-6), cell=cell)
        chk("indexing.ubitoB == unitcell B", numpy.allclose(ix.ubitoB(ubi), B, atol=1e-7), cell=cell,
            maxdiff=float(numpy.abs(ix.ubitoB(ubi) - B).max()))
        chk("indexing.ubitoU == U", numpy.allclose(ix.ubitoU(ubi), R, atol=1e-6), cell=cell)
        chk("Rodrigues vectors agree", numpy.allclose(ix.ubitoRod(ubi), g.Rod, atol=1e-7), cell=cell)
        # vectorised map functions on a 2x2 map with one NaN voxel
        ubis = numpy.array([[ubi, ubi * numpy.nan], [ubi, ubi]])
        mt = tm.ubi_to_mt(ubis)
        cellm = tm.mt_to_unitcell(mt, numpy.ones(6))
        Bm = tm.unitcell_to_b(cellm, numpy.eye(3))
        Um = tm.ubi_and_b_to_u(ubis, Bm)
        ok = numpy.isnan(mt[0, 1]).all() and numpy.isnan(cellm[0, 1]).all() and numpy.isnan(Bm[0, 1]).all() and numpy.isnan(Um[0, 1]).all()
        chk("NaN voxel stays NaN", ok, cell=cell)
        for idx in ((0, 0), (1, 0), (1, 1)):
            chk("map == grain", numpy.allclose(mt[idx], g.mt) and numpy.allclose(cellm[idx], g.unitcell, atol=1e-9) and
                numpy.allclose(Bm[idx], g.B, atol=1e-9) and numpy.allclose(Um[idx], g.U, atol=1e-9), cell=cell, voxel=idx)
        # the TensorMap wrapper caches derived maps: after the UBI map is replaced (by attribute, by item, by add_map) every derived map must
        # describe the new lattice - also when the derived maps had been asked for before
        if hasattr(tm, "TensorMap"):
            strain = numpy.eye(3) + 0.01 * (rng.rand(3, 3) - 0.5)
            ubi_new = numpy.linalg.inv(numpy.linalg.inv(ubi).dot(strain))
            for how in ("attribute", "item", "add_map"):
                t = tm.TensorMap(maps={"UBI": numpy.array([[[ubi, ubi * numpy.nan, ubi]]])})
                _ = (t.mt, t.unitcell, t.B, t.U, t.UB)
                newmap = numpy.array([[[ubi_new, ubi_new, ubi_new * numpy.nan]]])
                if how == "attribute":
                    t.UBI = newmap
                elif how == "item":
                    t["UBI"] = newmap
                else:
                    t.add_map("UBI", newmap)
                g2 = gr.grain(ubi_new)
                okc = (numpy.allclose(t.mt[0, 0, 0], g2.mt) and numpy.allclose(t.unitcell[0, 0, 1], g2.unitcell, atol=1e-9) and
                       numpy.allclose(t.B[0, 0, 0], g2.B, atol=1e-9) and numpy.allclose(t.U[0, 0, 1], g2.U, atol=1e-9) and
                       numpy.allclose(t.UB[0, 0, 0], g2.UB, atol=1e-9) and numpy.isnan(t.U[0, 0, 2]).all())
                chk("TensorMap: derived maps describe the old lattice after the UBI map was replaced (%s)" % how, okc, cell=cell)
        if len(samples) < 3:
            samples.append(dict(cell=[round(float(x), 3) for x in cell]))
    return dict(evaluations=ev, distinct_nontrivial=sum(1 for c in cells if c[3:] != [90, 90, 90]), samples=samples, failures=fails,
                rule="seeded random cells (cubic, hexagonal, monoclinic, rhombohedral, triclinic) x random rotations; non-trivial = non-orthogonal cell")


def units_c10_grain():
    """grain.eps_grain_matrix / eps_sample_matrix (m = 1/2): same F and same expression in the svd factors as the map functions;
    e6 ordering of symm_to_e6 / e6_to_symm"""
    gr = lambda: [repo_module("ImageD11.grain"), repo_module("ImageD11.unitcell"), repo_module("ImageD11.finite_strain")]
    fsm = lambda: [repo_module("ImageD11.finite_strain")]
    U = []
    for meth, kind in (("eps_sample_matrix", "V"), ("eps_grain_matrix", "S")):
        def run(m, ubi, cell, meth=meth):
            g = m[0].grain(ubi)
            E = getattr(g, meth)(cell, m=0.5)
            F, w, s, vh = ST.Tracer.current.svd_calls[-1]
            return [F, E]
        def spec(a, kw, pc, kind=kind):
            ubi, cell = a
            F = np.dot(ubi.T, spec_B(cell)[0].T)
            w, s, vh = ST.symarray("svd0_w", (3, 3)), ST.symarray("svd0_s", (3,)), ST.symarray("svd0_vh", (3, 3))
            X = np.dot(w, np.dot(NP.diag(s), w.T)) if kind == "V" else np.dot(vh.T, np.dot(NP.diag(s), vh))
            return [F, (X - ST.lift(np.eye(3).astype(int))) / 1]
        U.append(_mk("py:grain.grain." + meth, gr, run, lambda: ((ST.symarray("ubi", (3, 3)), _cell()), {}), spec, prop="C10",
                     replay_fn=_replay_strain(lambda m, ubi, cell, meth=meth: getattr(m[0].grain(ubi), meth)(cell, m=0.5), kind),
                     extra_fn=lambda m: {"inv": NP.linalg.inv},
                     requires_fn=lambda: [_T(NP.linalg.det(ST.symarray("ubi", (3, 3)))) >= 0]))
    # the reference handed over as another grain: the module must take that grain's UB (orientation included), not its B
    for meth, kind in (("eps_sample_matrix", "V"), ("eps_grain_matrix", "S")):
        def run_ref(m, ubi, ub0, meth=meth):
            class Ref:
                pass
            ref = Ref()
            ref.UB = ub0
            ref.B = ST.symarray("refB", (3, 3))          # a different matrix: using it instead of UB changes F
            g = m[0].grain(ubi)
            E = getattr(g, meth)(ref, m=0.5)
            F, w, s, vh = ST.Tracer.current.svd_calls[-1]
            return [F, E]
        def spec_ref(a, kw, pc, kind=kind):
            ubi, ub0 = a
            F = np.dot(ubi.T, ub0.T)
            w, s, vh = ST.symarray("svd0_w", (3, 3)), ST.symarray("svd0_s", (3,)), ST.symarray("svd0_vh", (3, 3))
            X = np.dot(w, np.dot(NP.diag(s), w.T)) if kind == "V" else np.dot(vh.T, np.dot(NP.diag(s), vh))
            return [F, (X - ST.lift(np.eye(3).astype(int))) / 1]
        U.append(_mk("py:grain.grain." + meth + "[grain reference]", gr, run_ref,
                     lambda: ((ST.symarray("ubi", (3, 3)), ST.symarray("ub0", (3, 3))), {}), spec_ref, prop="C10",
                     extra_fn=lambda m: {"inv": NP.linalg.inv},
                     requires_fn=lambda: [_T(NP.linalg.det(ST.symarray("ubi", (3, 3)))) >= 0]))
    def run_e6(m, e):
        s = m[0].e6_to_symm(e)
        return [s, m[0].symm_to_e6(s)]
    U.append(_mk("py:finite_strain.e6", fsm, run_e6, lambda: ((ST.symarray("e", (6,)),), {}),
                 lambda a, kw, pc: [[[a[0][0], a[0][1], a[0][2]], [a[0][1], a[0][3], a[0][4]], [a[0][2], a[0][4], a[0][5]]], a[0]], prop="C10"))
    return U


def b_c10_numeric(ctx):
    """bounded: known stretch S and rotation R applied to a reference cell: grain-frame strain = Seth-Hill tensor of S for every supported m,
    unchanged under rotation of the grain, sample-frame strain = R.E.R^T, zero for the reference cell, map functions equal the grain ones"""
    import numpy
    gr = repo_module("ImageD11.grain")
    uc = repo_module("ImageD11.unitcell")
    tm = repo_module("ImageD11.sinograms.tensor_map")
    rng = numpy.random.RandomState(ctx.seed)
    n = 25 if ctx.tier == "quick" else 250
    fails, ev, samples = [], 0, []
    def chk(name, ok, **info):
        if not ok and len(fails) < 6:
            fails.append(dict(name=name, **info))
    def rot():
        q = rng.normal(size=4); q /= numpy.linalg.norm(q); a, b, c, d = q
        return numpy.array([[a*a+b*b-c*c-d*d, 2*(b*c-a*d), 2*(b*d+a*c)], [2*(b*c+a*d), a*a-b*b+c*c-d*d, 2*(c*d-a*b)],
                            [2*(b*d-a*c), 2*(c*d+a*b), a*a-b*b-c*c+d*d]])
    def mpow(S, p):
        w, v = numpy.linalg.eigh(S)
        return (v * w ** p).dot(v.T)
    def mlog(S):
        w, v = numpy.linalg.eigh(S)
        return (v * numpy.log(w)).dot(v.T)
    for it in range(n):
        cell = [rng.uniform(3, 9), rng.uniform(3, 9), rng.uniform(3, 9), rng.uniform(70, 110), rng.uniform(70, 110), rng.uniform(70, 110)]
        if it % 3 == 0:
            cell[3:] = [90, 90, 90]
        B0 = uc.unitcell(cell, "P").B
        A = rng.normal(size=(3, 3)) * 0.01
        S = numpy.eye(3) + (A + A.T) / 2          # known symmetric stretch
        R = rot()
        # deformed crystal: UB = R.S.B0 (reciprocal lattice deformed by F = R.S)  =>  ubi^T.B0^T = inverse-transpose convention of the module
        # the module defines F = ubi^T . B0^T ; choose ubi so that F = R.S exactly
        F = R.dot(S)
        ubi = numpy.linalg.inv(B0.T).dot(F.T).T if False else (F.dot(numpy.linalg.inv(B0.T))).T
        g = gr.grain(ubi)
        ev += 1
        for m in (-1, -0.5, 0, 0.5, 1, 1.5, 2):
            want = mlog(S) if m == 0 else (mpow(S, 2 * m) - numpy.eye(3)) / (2 * m)
            Eg = g.eps_grain_matrix(cell, m)
            Es = g.eps_sample_matrix(cell, m)
            chk("grain-frame strain == Seth-Hill(S)", numpy.allclose(Eg, want, atol=1e-9), m=m, cell=cell)
            chk("sample-frame strain == R.E.R^T", numpy.allclose(Es, R.dot(want).dot(R.T), atol=1e-9), m=m, cell=cell)
            chk("symmetric", numpy.allclose(Eg, Eg.T, atol=1e-12) and numpy.allclose(Es, Es.T, atol=1e-12), m=m)
            # the 6-component wrappers hand the exponent through: e11 e12 e13 e22 e23 e33 of the matrix for this m
            e6 = lambda E: numpy.array([E[0, 0], E[0, 1], E[0, 2], E[1, 1], E[1, 2], E[2, 2]])
            chk("eps_grain(m) == six components of eps_grain_matrix(m)", numpy.allclose(g.eps_grain(cell, m), e6(want), atol=1e-9), m=m, cell=cell)
            chk("eps_sample(m) == six components of eps_sample_matrix(m)", numpy.allclose(g.eps_sample(cell, m), e6(R.dot(want).dot(R.T)), atol=1e-9),
                m=m, cell=cell)
            Q = rot()
            g2 = gr.grain(Q.dot(F).dot(numpy.linalg.inv(B0.T)).T)
            chk("objective", numpy.allclose(g2.eps_grain_matrix(cell, m), Eg, atol=1e-9), m=m, cell=cell)
            g0 = gr.grain((R.dot(numpy.linalg.inv(B0.T))).T)
            chk("zero for the reference cell", numpy.allclose(g0.eps_grain_matrix(cell, m), 0, atol=1e-9) and
                numpy.allclose(g0.eps_sample_matrix(cell, m), 0, atol=1e-9), m=m, cell=cell)
        # the reference given as another grain (its UB, i.e. with its own orientation U0) instead of cell parameters
        U0 = rot()
        UB0 = U0.dot(B0)
        gref = gr.grain(numpy.linalg.inv(UB0))
        g3 = gr.grain((F.dot(numpy.linalg.inv(UB0.T))).T)
        for m in (-1, 0, 0.5, 1):
            want = mlog(S) if m == 0 else (mpow(S, 2 * m) - numpy.eye(3)) / (2 * m)
            chk("grain reference: grain-frame strain == Seth-Hill(S)", numpy.allclose(g3.eps_grain_matrix(gref, m), want, atol=1e-9), m=m, cell=cell)
            chk("grain reference: sample-frame strain == R.E.R^T", numpy.allclose(g3.eps_sample_matrix(gref, m), R.dot(want).dot(R.T), atol=1e-9),
                m=m, cell=cell)
        chk("grain reference: zero strain against itself", numpy.allclose(gref.eps_grain_matrix(gref), 0, atol=1e-9) and
            numpy.allclose(gref.eps_sample_matrix(gref), 0, atol=1e-9), cell=cell)
        ubis = numpy.array([ubi, ubi * numpy.nan, ubi])
        cells = numpy.array([cell, cell, cell])
        es = tm.ubi_and_unitcell_to_eps_sample(ubis, cells)
        ec = tm.ubi_and_unitcell_to_eps_crystal(ubis, cells)
        chk("map strain == grain strain", numpy.allclose(es[0], g.eps_sample_matrix(cell), atol=1e-10) and numpy.allclose(ec[2], g.eps_grain_matrix(cell), atol=1e-10), cell=cell)
        chk("NaN voxel stays NaN", numpy.isnan(es[1]).all() and numpy.isnan(ec[1]).all())
        if len(samples) < 2:
            samples.append(dict(cell=[round(float(x), 3) for x in cell], stretch=numpy.round(S, 4).tolist()))
    return dict(evaluations=ev * 7, distinct_nontrivial=ev, samples=samples, failures=fails,
                rule="seeded random reference cells x known stretch S (|S-I| ~ 1e-2) x rotation R, m in {-1,-1/2,0,1/2,1,3/2,2}; reference given as cell "
                     "parameters and as another grain with its own random orientation")
