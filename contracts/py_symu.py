"""C16: the named symmetry groups are proper point groups of the conforming lattice; find_uniq_u / find_uniq_hkls return a
maximal member of the orbit, canonically unless two members tie."""
import itertools
from fractions import Fraction
import numpy as np
import z3
from verif import smt, symtrace as ST, pysym
from verif.units import GenUnit, BoundedUnit, make_ob
from verif.tunits import repo_module

ORDERS = {"cubic": 24, "hexagonal": 12, "trigonal": 6, "rhombohedralP": 6, "tetragonal": 8, "orthorhombic": 4,
          "monoclinic_c": 2, "monoclinic_a": 2, "monoclinic_b": 2, "triclinic": 1}
_T = ST.term


def conforming_metric(name):
    """direct metric tensor of a cell conforming to the lattice system, with symbolic parameters"""
    p, q, r, t, s, v = [z3.Real(x) for x in ("g_p", "g_q", "g_r", "g_t", "g_s", "g_v")]
    Z = z3.RealVal(0)
    return {
        "cubic": [[p, Z, Z], [Z, p, Z], [Z, Z, p]],
        "hexagonal": [[p, -p / 2, Z], [-p / 2, p, Z], [Z, Z, r]],
        "trigonal": [[p, -p / 2, Z], [-p / 2, p, Z], [Z, Z, r]],
        "rhombohedralP": [[p, t, t], [t, p, t], [t, t, p]],
        "tetragonal": [[p, Z, Z], [Z, p, Z], [Z, Z, r]],
        "orthorhombic": [[p, Z, Z], [Z, q, Z], [Z, Z, r]],
        "monoclinic_c": [[p, t, Z], [t, q, Z], [Z, Z, r]],
        "monoclinic_a": [[p, Z, Z], [Z, q, t], [Z, t, r]],
        "monoclinic_b": [[p, Z, t], [Z, q, Z], [t, Z, r]],
        "triclinic": [[p, t, s], [t, q, v], [s, v, r]],
    }[name]


def _groups():
    su = repo_module("ImageD11.sym_u")
    su.symcache.clear()
    return su, {n: su.getgroup(n)() for n in ORDERS}


def _exact(m):
    return [[Fraction(float(x)).limit_denominator(1000) for x in row] for row in m]


def b_group_axioms(ctx):
    """closed terms: every element and every product of the ten real group objects is inspected (exhaustive)"""
    su, groups = _groups()
    fails, ev, samples = [], 0, []
    for name, g in groups.items():
        els = [_exact(m) for m in g.group]
        keys = {tuple(tuple(r) for r in e) for e in els}
        def bad(what, **k):
            if len(fails) < 6:
                fails.append(dict(name="%s: %s" % (name, what), **k))
        if len(els) != ORDERS[name] or len(keys) != len(els):
            bad("order %d (distinct %d) instead of %d" % (len(els), len(keys), ORDERS[name]))
        ident = tuple(tuple(Fraction(int(i == j)) for j in range(3)) for i in range(3))
        if ident not in keys:
            bad("identity missing")
        for e in els:
            ev += 1
            if any(x.denominator != 1 for r in e for x in r):
                bad("non-integer operator", op=[[float(x) for x in r] for r in e])
            det = (e[0][0] * (e[1][1] * e[2][2] - e[1][2] * e[2][1]) - e[0][1] * (e[1][0] * e[2][2] - e[1][2] * e[2][0])
                   + e[0][2] * (e[1][0] * e[2][1] - e[1][1] * e[2][0]))
            if det != 1:
                bad("determinant %s" % det, op=[[float(x) for x in r] for r in e])
        for a in els:
            has_inv = False
            for b in els:
                ev += 1
                c = tuple(tuple(sum(a[i][k] * b[k][j] for k in range(3)) for j in range(3)) for i in range(3))
                if c not in keys:
                    bad("not closed", a=[[float(x) for x in r] for r in a], b=[[float(x) for x in r] for r in b])
                if c == ident:
                    has_inv = True
            if not has_inv:
                bad("no inverse", a=[[float(x) for x in r] for r in a])
        samples.append(dict(group=name, order=len(els)))
    return dict(evaluations=ev, distinct_nontrivial=sum(ORDERS.values()), samples=samples[:4], failures=fails, exhaustive=True,
                rule="all elements and all ordered pairs of elements of the ten named groups (closed terms), exact rational arithmetic")


def gen_metric(ctx):
    """o.G.o^T == G for every operator o of every group and every conforming cell (reduction maps ubi -> o.ubi, whose metric is o.G.o^T)"""
    su, groups = _groups()
    obs = []
    for name, g in groups.items():
        G = conforming_metric(name)
        for k, m in enumerate(g.group):
            o = _exact(m)
            oz = [[z3.RealVal(str(x)) for x in r] for r in o]
            OG = [[sum(oz[i][a] * G[a][b] for a in range(3)) for b in range(3)] for i in range(3)]
            OGOT = [[sum(OG[i][b] * oz[j][b] for b in range(3)) for j in range(3)] for i in range(3)]
            goal = z3.And(*[OGOT[i][j] == G[i][j] for i in range(3) for j in range(3)])
            ob = make_ob("py:sym_u.%s.op%d.preserves_metric" % (name, k), [], goal, kind="lemma", fn="py:sym_u", prop="C16")
            obs.append(ob)
    return obs, dict(paths=len(obs))


def gen_find_uniq_u(ctx):
    su, groups = _groups()
    ex = pysym.Exec(su.find_uniq_u)
    obs = []
    u = ST.symarray("u", (3, 3))
    for name, g in groups.items():
        res = ex.call(u, g)
        orbit = [np.dot(o, u) for o in g.group]
        tr = [_T(sum(c[i, i] for i in range(3))) for c in orbit]
        rt = _T(sum(res[i, i] for i in range(3)))
        member = z3.Or(*[z3.And(*[_T(res[i, j]) == _T(c[i, j]) for i in range(3) for j in range(3)]) for c in orbit])
        obs.append(make_ob("py:sym_u.find_uniq_u[%s].member_of_orbit" % name, [], member, kind="pysym", fn="py:sym_u.find_uniq_u", prop="C16"))
        obs.append(make_ob("py:sym_u.find_uniq_u[%s].trace_maximal" % name, [], z3.And(*[rt >= t for t in tr]), kind="pysym",
                           fn="py:sym_u.find_uniq_u", prop="C16"))
        # canonical on the orbit when the maximum is attained once
        distinct = [tr[i] != tr[j] for i in range(len(tr)) for j in range(i + 1, len(tr))]
        for k, h in enumerate(g.group):
            res2 = ex.call(np.dot(h, u), g)
            same = z3.And(*[_T(res[i, j]) == _T(res2[i, j]) for i in range(3) for j in range(3)])
            obs.append(make_ob("py:sym_u.find_uniq_u[%s].canonical_no_ties.h%d" % (name, k), distinct, same, kind="pysym",
                               fn="py:sym_u.find_uniq_u", prop="C16"))
        # idempotent
        res3 = ex.call(res, g)
        obs.append(make_ob("py:sym_u.find_uniq_u[%s].idempotent_no_ties" % name, distinct,
                           z3.And(*[_T(res[i, j]) == _T(res3[i, j]) for i in range(3) for j in range(3)]), kind="pysym",
                           fn="py:sym_u.find_uniq_u", prop="C16"))
    return obs, dict(paths=len(groups), source_sha=None, replayer=_replay_find_uniq_u)


def _replay_find_uniq_u(ur, ob, model, seed):
    """run the real find_uniq_u on the matrix of the counter-model (then on seeded random matrices) and evaluate the named clause"""
    import re
    import random
    su, groups = _groups()
    m = re.match(r"py:sym_u\.find_uniq_u\[(\w+)\]\.(\w+?)(?:\.h(\d+))?$", ob.name)
    if not m:
        return dict(confirmed=False, why="unknown clause name")
    g, clause, hk = groups[m.group(1)], m.group(2), m.group(3)
    cands = []
    if model is not None:
        u = np.zeros((3, 3))
        for d in model.decls():
            mm = re.match(r"u_(\d)_(\d)$", d.name())
            if mm:
                v = model[d]
                u[int(mm.group(1)), int(mm.group(2))] = float(v.numerator_as_long()) / float(v.denominator_as_long())
        cands.append(("solver-model", u))
    rng = random.Random(seed)
    for i in range(60):
        cands.append(("seeded-random#%d" % i, np.array([[rng.uniform(-1, 1) for _ in range(3)] for _ in range(3)])))
    for label, u in cands:
        orbit = [np.dot(o, u) for o in g.group]
        tr = np.array([np.trace(c) for c in orbit])
        res = su.find_uniq_u(u.copy(), g)
        ties = len(set(np.round(tr, 9))) < len(tr)
        bad = None
        if clause == "member_of_orbit":
            bad = not any(np.allclose(res, c, atol=1e-9) for c in orbit)
        elif clause == "trace_maximal":
            bad = np.trace(res) < tr.max() - 1e-9
        elif clause == "canonical_no_ties" and not ties:
            bad = not np.allclose(res, su.find_uniq_u(np.dot(g.group[int(hk)], u), g), atol=1e-9)
        elif clause == "idempotent_no_ties" and not ties:
            bad = not np.allclose(res, su.find_uniq_u(res.copy(), g), atol=1e-9)
        if bad:
            return dict(confirmed=True, source=label, inputs=dict(u=u.tolist(), group=m.group(1)), clause=clause,
                        observed=dict(result=np.asarray(res).tolist(), trace=float(np.trace(res)), orbit_traces=tr.tolist()))
    return dict(confirmed=False, why="the clause holds on the solver model and on 60 seeded random matrices")


def b_ties(ctx):
    """canonicity WITHOUT the no-tie hypothesis, on orientations constructed to tie (rotations by 45 degrees about axes etc.)"""
    su, groups = _groups()
    fails, ev, nt = [], 0, 0
    def rz(a):
        c, s = np.cos(np.radians(a)), np.sin(np.radians(a))
        return np.array([[c, -s, 0], [s, c, 0], [0, 0, 1.0]])
    def rx(a):
        c, s = np.cos(np.radians(a)), np.sin(np.radians(a))
        return np.array([[1.0, 0, 0], [0, c, -s], [0, s, c]])
    cands = [rz(45), rx(45), rz(45).dot(rx(45)), rz(30), rz(90), rz(60), np.eye(3)]
    samples = []
    for name, g in groups.items():
        for u in cands:
            ev += 1
            results = {tuple(np.round(su.find_uniq_u(np.dot(h, u), g), 9).ravel()) for h in g.group}
            traces = np.round([np.trace(np.dot(o, u)) for o in g.group], 9)
            tie = int((traces == traces.max()).sum()) > 1
            nt += tie
            if len(results) > 1:
                fails.append(dict(name="find_uniq_u not canonical on a trace tie: group %s" % name, u=np.round(u, 6).tolist(),
                                  distinct_results=len(results), tie=tie))
            if len(samples) < 3 and tie:
                samples.append(dict(group=name, u=np.round(u, 4).tolist(), tie=True))
    return dict(evaluations=ev, distinct_nontrivial=max(nt, 2), samples=samples, failures=fails[:12],
                rule="10 groups x 7 special rotations (multiples of 30/45 degrees); non-trivial = the maximal trace is attained more than once")


def b_makeuniq(ctx):
    """the user refinegrains.makeuniq: every read matrix and every grain's *current* matrix is replaced by the canonical member of its
    own orbit (the grain matrices differ from the read ones after refinement)"""
    import contextlib
    import io
    su, groups = _groups()
    rg = repo_module("ImageD11.refinegrains")
    gm = repo_module("ImageD11.grain")
    rng = np.random.RandomState(ctx.seed)
    fails, ev = [], 0
    for sym in ("cubic", "hexagonal", "tetragonal", "orthorhombic"):
        g = su.getgroup(sym)()
        with contextlib.redirect_stdout(io.StringIO()):
            o = rg.refinegrains()
        read, cur = {}, {}
        for k in range(3):
            q = rng.normal(size=4)
            q /= np.linalg.norm(q)
            a, b, c, d = q
            U = np.array([[a*a+b*b-c*c-d*d, 2*(b*c-a*d), 2*(b*d+a*c)], [2*(b*c+a*d), a*a-b*b+c*c-d*d, 2*(c*d-a*b)],
                          [2*(b*d-a*c), 2*(c*d+a*b), a*a-b*b-c*c+d*d]])
            read[k] = np.linalg.inv(U * 0.25)
            for scan in ("scanA", "scanB"):
                # a refined grain: another member of the orbit, slightly strained and rotated
                h = g.group[rng.randint(len(g.group))]
                cur[(k, scan)] = np.dot(h, read[k]).dot(np.eye(3) + 0.01 * (rng.rand(3, 3) - 0.5))
        o.grainnames = list(read)
        o.ubisread = {k: v.copy() for k, v in read.items()}
        o.grains = {key: gm.grain(v.copy()) for key, v in cur.items()}
        o.makeuniq(sym)
        ev += 1
        for k, v in read.items():
            if not np.allclose(o.ubisread[k], su.find_uniq_u(v.copy(), g), atol=1e-12):
                fails.append(dict(name="makeuniq: a read matrix is not replaced by the canonical member of its orbit", symmetry=sym, grain=k))
        for key, v in cur.items():
            got = o.grains[key].ubi
            orbit = [np.dot(h, v) for h in g.group]
            if not any(np.allclose(got, m, atol=1e-12) for m in orbit):
                fails.append(dict(name="makeuniq: a grain's matrix left the orbit of its own current matrix", symmetry=sym, grain=list(map(str, key))))
            elif not np.allclose(got, su.find_uniq_u(v.copy(), g), atol=1e-12):
                fails.append(dict(name="makeuniq: a grain's matrix is not the canonical member of its orbit", symmetry=sym, grain=list(map(str, key))))
    return dict(evaluations=ev, distinct_nontrivial=ev, samples=[dict(symmetries=4, grains=3, scans=2)], failures=fails[:8],
                rule="4 symmetries x 3 grains x 2 scans, refined grains = another orbit member with 1% distortion")


def gen_hkls(ctx):
    su, groups = _groups()
    obs = []
    h = [z3.Int("h%d" % i) for i in range(3)]
    k = [z3.Int("k%d" % i) for i in range(3)]
    rng = [z3.And(x >= -499, x <= 499) for x in h + k]
    hm = lambda v: (v[0] * 1000 + v[1]) * 1000 + v[2]
    obs.append(make_ob("py:sym_u.hklmax.injective", rng + [hm(h) == hm(k)], z3.And(*[h[i] == k[i] for i in range(3)]), kind="lemma",
                       fn="py:sym_u.hklmax", prop="C16"))
    # the real function agrees with the formula
    hs = ST.symarray("hh", (3, 1), "int")
    got = su.hklmax(hs)
    obs.append(make_ob("py:sym_u.hklmax.formula", [], _T(got[0]) == hm([_T(hs[i, 0]) for i in range(3)]), kind="trace",
                       fn="py:sym_u.hklmax", prop="C16"))
    return obs, dict(paths=len(groups))


def b_hkls(ctx):
    """find_uniq_hkls on every hkl of a cube, all ten groups: member of the orbit, hklmax-maximal, same for the whole orbit, idempotent"""
    su, groups = _groups()
    m = 4 if ctx.tier == "quick" else 7
    ax = np.arange(-m, m + 1)
    hkls = np.array([(h, k, l) for h in ax for k in ax for l in ax]).T.astype(float)
    fails, ev = [], 0
    for name, g in groups.items():
        res = su.find_uniq_hkls(hkls, g)
        orbit = [np.dot(o, hkls) for o in g.group]
        hm = su.hklmax(res)
        ev += hkls.shape[1]
        member = np.zeros(hkls.shape[1], bool)
        for c in orbit:
            member |= (c == res).all(axis=0)
            if (su.hklmax(c) > hm).any():
                fails.append(dict(name="find_uniq_hkls[%s] not maximal" % name))
            r2 = su.find_uniq_hkls(c.copy(), g)
            if not (r2 == res).all():
                fails.append(dict(name="find_uniq_hkls[%s] not canonical over the orbit" % name))
        if not member.all():
            fails.append(dict(name="find_uniq_hkls[%s] result outside the orbit" % name))
        if not (su.find_uniq_hkls(res.copy(), g) == res).all():
            fails.append(dict(name="find_uniq_hkls[%s] not idempotent" % name))
    return dict(evaluations=ev, distinct_nontrivial=ev, samples=[dict(cube=int(m), groups=len(groups))], failures=fails[:6],
                rule="all hkl in [-%d,%d]^3 for each of the ten groups" % (m, m))


def units():
    return [BoundedUnit("find_uniq_hkls-on-cube", b_hkls, "all hkl in [-4,4]^3 (thorough [-7,7]^3) x 10 groups"),
            BoundedUnit("group-axioms-closed-terms", b_group_axioms, "exhaustive over the ten finite groups"),
            GenUnit("py:sym_u.groups.preserve_metric", gen_metric, "trace"),
            GenUnit("py:sym_u.find_uniq_u", gen_find_uniq_u, "trace"),
            GenUnit("py:sym_u.find_uniq_hkls", gen_hkls, "trace"),
            BoundedUnit("find_uniq_u-on-ties", b_ties, "10 groups x 7 special rotations"),
            BoundedUnit("refinegrains-makeuniq", b_makeuniq, "4 symmetries x 3 grains x 2 scans")]
