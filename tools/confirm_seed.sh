#!/bin/sh
# usage: confirm_seed.sh <ID> <suffix>   (worktree /tmp/wt_<ID> with the change applied and built; deliverables in /tmp/seed_out/<ID>_<suffix>)
ID="$1"; SUF="$2"; WT=/tmp/wt_$ID; OUT=/tmp/seed_out/${ID}_$SUF; LOG=$OUT/confirm.log
export NUMBA_CACHE_DIR=/tmp/numba_cache_confirm_$ID
DEMO=demo.py; [ -f $OUT/demo.py ] || DEMO=demo.sh
run_demo() { if [ "$DEMO" = demo.py ]; then (cd $1 && PYTHONPATH=$1 timeout 900 /venv/bin/python $OUT/demo.py); else (cd $1 && PYTHONPATH=$1 timeout 900 sh $OUT/demo.sh); fi; }
{
echo "== diff applies to HEAD of /repo?"; git -C ${REF:-/repo} apply --check $OUT/patch.diff && echo applies
echo "== build in worktree"; (cd $WT && /venv/bin/python setup.py build_ext --inplace >/dev/null 2>&1 && echo build-ok)
echo "== demo WITH change"; run_demo $WT >/tmp/demo_with_$ID.log 2>&1; echo "rc=$?"; tail -3 /tmp/demo_with_$ID.log
echo "== demo WITHOUT change (${REF:-/repo})"; run_demo ${REF:-/repo} >/tmp/demo_without_$ID.log 2>&1; echo "rc=$?"; tail -3 /tmp/demo_without_$ID.log
echo "== test suite WITH change"; (cd $WT && PYTHONPATH=$WT timeout 1800 /venv/bin/python -m pytest -q -p no:cacheprovider --timeout=900 --continue-on-collection-errors 2>&1 | tail -3)
} > $LOG 2>&1
echo "$ID done"
