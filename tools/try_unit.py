import os, sys
os.environ.setdefault("REPO", "/tmp/rclean")
sys.path.insert(0, "/verif/.pydeps"); sys.path.insert(0, "/verif")
import contracts
from verif import cverify, solve
key, mode = sys.argv[1], (sys.argv[2] if len(sys.argv) > 2 else "full")
r = cverify.generate(key, options={"mode": mode})
print("error:", r.error, "obligations:", len(r.obs))
res = solve.solve_all(r.obs, wall_ms=int(sys.argv[3]) if len(sys.argv) > 3 else 20000)
bad = [(x["name"][:170], x["result"]) for x in res if x["result"] != "unsat"]
print("not discharged:", len(bad))
for b in bad[:30]:
    print(b)
