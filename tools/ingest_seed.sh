#!/bin/sh
# usage: tools/ingest_seed.sh <ID> <suffix> [check ids...]
# the sub-agent left its change applied and built in /tmp/seed_<ID><suffix> and its deliverables in /tmp/seed_<ID><suffix>_out.
# 1. confirm it myself (applies to the clean reference, builds, demo fails with / passes without, suite unchanged)
# 2. run the property's quick check with REPO pointing at the seeded worktree, keep the verdict lines
# 3. store everything under /verif/seeded/<ID>_<suffix> and remove the worktree
ID="$1"; SUF="$2"; shift 2; CHECKS="${*:-$ID}"
WT=/tmp/seed_$ID$SUF; OUT=${WT}_out; REF=${REF:-/tmp/rclean}; DST=/verif/seeded/${ID}_$SUF
export NUMBA_CACHE_DIR=/tmp/numba_cache_confirm_$ID$SUF
mkdir -p $DST
cp $OUT/patch.diff $OUT/demo.py $DST/ 2>/dev/null; cp $OUT/notes.txt $DST/agent_notes.txt 2>/dev/null
{
echo "== diff applies to the clean reference ($REF at $(git -C $REF rev-parse --short HEAD))?"; git -C $REF apply --check $OUT/patch.diff && echo applies
echo "== build in worktree"; (cd $WT && /venv/bin/python setup.py build_ext --inplace >/dev/null 2>&1 && echo build-ok)
echo "== demo WITH change"; (cd $WT && PYTHONPATH=$WT timeout 1200 /venv/bin/python $OUT/demo.py) >/tmp/demo_with_$ID$SUF.log 2>&1; echo "rc=$?"; tail -3 /tmp/demo_with_$ID$SUF.log
echo "== demo WITHOUT change ($REF)"; (cd $REF && PYTHONPATH=$REF timeout 1200 /venv/bin/python $OUT/demo.py) >/tmp/demo_without_$ID$SUF.log 2>&1; echo "rc=$?"; tail -3 /tmp/demo_without_$ID$SUF.log
echo "== test suite WITH change"; (cd $WT && PYTHONPATH=$WT timeout 1800 /venv/bin/python -m pytest -q -p no:cacheprovider --timeout=900 --continue-on-collection-errors 2>&1 | tail -3)
} > $DST/confirm.log 2>&1
: > $DST/detect.log
for c in $CHECKS; do
  (cd /verif && REPO=$WT ./check $c --tier quick 2>&1 | grep -E "^(VIOLATION|UNDECIDED|CHECKER-ERROR|KNOWN-FINDING|C[0-9]+ tier)" | cut -c1-260 | head -12) >> $DST/detect.log
done
echo "exit $(grep -c '^VIOLATION' $DST/detect.log | awk '{print ($1>0)?1:0}')" >> $DST/detect.log
git -C /verif checkout -- evidence 2>/dev/null
rm -f /tmp/demo_with_$ID$SUF.log /tmp/demo_without_$ID$SUF.log; rm -rf $NUMBA_CACHE_DIR
echo "$ID$SUF ingested: $(grep -c '^VIOLATION' $DST/detect.log) violation lines"
