#!/bin/sh
# usage: tools/try_seed_scratch.sh <seed id, e.g. C08_a> [check ids...]  -- like try_seed.sh but on the clean scratch worktree /tmp/rclean
# (REPO=/tmp/rclean), so that /repo is never touched; writes seeded/<id>/detect.log
SID="$1"; shift; PROP=${SID%%_*}; CHECKS="${*:-$PROP}"; D=/verif/seeded/$SID; W=${SCRATCH:-/tmp/rclean}
P=$D/patch.diff; [ -f $D/patch_on_fixed_tree.diff ] && P=$D/patch_on_fixed_tree.diff
git -C $W checkout -q -- . ; git -C $W apply $P || { echo "patch does not apply"; exit 9; }
: > $D/detect.log
for c in $CHECKS; do
  (cd /verif && REPO=$W ./check $c --tier quick 2>&1 | grep -E "^(VIOLATION|UNDECIDED|CHECKER-ERROR|KNOWN-FINDING|C[0-9]+ tier)" | cut -c1-260 | head -12) >> $D/detect.log
done
echo "exit $(grep -c '^VIOLATION' $D/detect.log | awk '{print ($1>0)?1:0}')" >> $D/detect.log
git -C $W checkout -q -- .
# the in-tree extension of the scratch tree may have been rebuilt from the seeded C sources: rebuild it from the clean ones
(cd /verif && REPO=$W PYTHONPATH=.pydeps:. /venv/bin/python -c "from verif import extbuild; extbuild.ensure_current()" >/dev/null 2>&1)
tail -2 $D/detect.log | cut -c1-200
