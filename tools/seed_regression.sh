#!/bin/sh
# applies every seeded change in turn, runs the quick check of its property, records the verdict lines in seeded/<id>/detect.log,
# undoes the change and finally restores the clean-tree evidence files (evidence must come from /repo itself)
cd /verif
for d in seeded/*/; do
  id=$(basename $d); prop=${id%%_*}
  patch=/verif/$d/patch.diff
  [ -f /verif/$d/patch_on_fixed_tree.diff ] && patch=/verif/$d/patch_on_fixed_tree.diff
  echo "== $id"
  tools/try_seed.sh $patch $prop > $d/detect.log 2>&1
  grep -v "^WARNING" $d/detect.log | head -3 | cut -c1-240
  tail -1 $d/detect.log
done
git -C /repo status --short | grep -v "^??"
git -C /verif checkout -- evidence
