#!/usr/bin/env python3
"""prints the markdown table of seeded changes and the obligations that caught them (from seeded/*/meta.json and detect.log)"""
import glob, json, os, re
HERE = os.path.dirname(os.path.dirname(os.path.abspath(__file__)))
print("| seed | change | verdict of `./check <id>` with the change applied | first failing obligations |")
print("|---|---|---|---|")
for d in sorted(glob.glob(os.path.join(HERE, "seeded", "*"))):
    m = json.load(open(os.path.join(d, "meta.json")))
    log = os.path.join(d, "detect.log")
    lines = [l.rstrip() for l in open(log)] if os.path.exists(log) else []
    viol = [l for l in lines if l.startswith("VIOLATION")]
    ex = [l for l in lines if l.startswith("exit ")]
    names = []
    for v in viol:
        n = v.split("obligation=", 1)[1] if "obligation=" in v else v
        n = n.replace("|", "\\|")[:90]
        if n not in names:
            names.append(n)
    verdict = (ex[-1] if ex else "not run")
    if viol and any(v.endswith("no-failing-input-found") for v in viol) and not all(v.endswith("no-failing-input-found") for v in viol):
        verdict += " (some with witness)"
    elif viol and all(v.endswith("no-failing-input-found") for v in viol):
        verdict += " (no-failing-input-found)"
    elif viol:
        verdict += " (witness replayed)"
    print("| %s | %s | %s | %s |" % (os.path.basename(d), m.get("change", "").replace("|", "\\|")[:170], verdict, "; ".join("`%s`" % n for n in names[:3]) or "-"))
