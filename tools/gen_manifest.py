#!/usr/bin/env python3
"""Regenerate MANIFEST.json from the table below (kept in one place so that it always validates)."""
import json, os, sys
HERE = os.path.dirname(os.path.dirname(os.path.abspath(__file__)))
sys.path.insert(0, HERE)
from tools.manifest_table import CHECKS, NOT_APPLICABLE, NOTES

checks = []
for c in CHECKS:
    checks.append(dict(property_id=c["id"], quick_cmd="./check %s --tier quick" % c["id"],
                       thorough_cmd="./check %s --tier thorough" % c["id"],
                       evidence_file="/verif/evidence/%s.json" % c["id"],
                       replay_cmd_template="./check %s --replay {path}" % c["id"],
                       engine=c["engine"],
                       level_claimed=dict(category=c["category"], text=c["text"], design_ref=c["design_ref"]),
                       level_note=c["note"], technique=c["technique"]))
m = dict(version=1,
         setup_cmd="sh /verif/setup.sh",
         hooks=dict(guard="IMAGED11_VERIF", enable="no source hooks exist: contracts are sidecar files under /verif/contracts, the checks read /repo's working tree as it is",
                    baseline_off_cmd="cd /repo && /venv/bin/python -m pytest -ra -q -p no:cacheprovider --timeout=900 --continue-on-collection-errors",
                    source_commits=[], add_only=True),
         engines=[dict(name="cfront+csym", path="/verif/verif/csym_exec.py", serves_properties=["C01", "C05", "C06", "C07", "C11", "C12", "C13", "C14", "C20"],
                       kind_free_text="VC generator for the real C kernels: clang JSON AST -> symbolic execution against sidecar contracts -> z3/cvc5"),
                  dict(name="symtrace", path="/verif/verif/symtrace.py", serves_properties=["C01", "C02", "C04", "C10", "C19"],
                       kind_free_text="the real numpy functions executed on symbolic scalars; resulting terms are the VCs"),
                  dict(name="pysym", path="/verif/verif/pysym.py", serves_properties=["C03", "C16"],
                       kind_free_text="python ast of numba / plain-loop functions -> same obligation form"),
                  dict(name="replay", path="/verif/verif/creplay.py", serves_properties=["C01", "C06", "C07", "C14", "C20"],
                       kind_free_text="counter-models and seeded inputs run on the freshly compiled real code (plain and ASan/UBSan)")],
         checks=checks, notes=NOTES, not_applicable=NOT_APPLICABLE)
json.dump(m, open(os.path.join(HERE, "MANIFEST.json"), "w"), indent=1)
try:
    import jsonschema
    jsonschema.validate(m, json.load(open("/root/.vp/MANIFEST.schema.json")))
    print("MANIFEST.json valid, %d checks, %d not applicable" % (len(checks), len(NOT_APPLICABLE)))
except ImportError:
    print("written (jsonschema not importable)")
