#!/bin/sh
# usage: tools/run_all.sh [tier] [ids...]  -- run every registered check on /repo as it is, print the verdict lines
TIER="${1:-quick}"; shift 2>/dev/null
IDS="${*:-C01 C02 C03 C04 C05 C06 C07 C08 C09 C10 C11 C12 C13 C14 C15 C16 C17 C18 C19 C20}"
cd /verif
for p in $IDS; do
  ./check $p --tier $TIER 2>&1 | grep -E "^(VIOLATION|UNDECIDED|CHECKER-ERROR|KNOWN-FINDING|C[0-9]+ tier)" | cut -c1-220
done
