#!/usr/bin/env python3
"""usage: tools/seed_stability.py <prop> [seeds...]   -- solve every obligation of a property under several solver seeds and list the
obligations that are not discharged under some seed or take longer than 30 s: these are the brittle ones to harden with proof steps."""
import importlib, os, sys, time
HERE = os.path.dirname(os.path.dirname(os.path.abspath(__file__)))
sys.path.insert(0, os.path.join(HERE, ".pydeps")); sys.path.insert(0, HERE)
from verif import report, solve
prop = sys.argv[1]
seeds = [int(x) for x in sys.argv[2:]] or [7, 1234]
mod = importlib.import_module("props." + prop)
ctx = report.Ctx(prop, "quick", 0)
units = [u for u in mod.units(ctx) if u.kind != "bounded"]
results = [u.generate(ctx) for u in units]
for r in results:
    if r.error:
        print("UNIT ERROR", r.name, r.error[:200])
allobs = [o for r in results for o in r.obs]
print("%s: %d obligations" % (prop, len(allobs)))
for seed in seeds:
    t0 = time.time()
    res = solve.solve_all(allobs, wall_ms=getattr(mod, "WALL_MS", None) or 60000, seed=seed)
    bad = [x for x in res if x["result"] != "unsat"]
    slow = [x for x in res if x["result"] == "unsat" and x["seconds"] > 30]
    print("seed %d: %d open, %d slow (>30 s), %.0f s" % (seed, len(bad), len(slow), time.time() - t0))
    for x in bad:
        print("   OPEN  %s (%s, %.0fs)" % (x["name"][:150], x["result"], x["seconds"]))
    for x in slow:
        print("   SLOW  %s (%.0fs, %s)" % (x["name"][:150], x["seconds"], x["backend"]))
