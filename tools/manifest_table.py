NOTES = ("Contract-based deductive verification with home-made VC generators (no C/Python verifier is installed). "
         "See DESIGN.md. Exit codes: 0 held, 1 VIOLATION, 2 UNDECIDED (could not form an obligation), 3 checker error.")
PROOF_NOTE = ("floats as reals; C ints as mathematical ints with overflow obligations; distinct buffers; libm = real functions; "
              "DRF meta-theorem for OpenMP loops; soundness of the VC generators and of z3/cvc5")
CHECKS = [
 dict(id="C01", engine="cfront+csym, symtrace", category="proof", design_ref="DESIGN.md section 5 C01",
      text="the three C geometry kernels, the python reference functions of transform.py, the numba copies of point_by_point.py, Ctransform and "
           "columnfile.updateGeometry (fast and slow route) are each proved equal to one reference geometry function for all parameters, "
           "peaks, omega signs and all wedge/chi/translation branches",
      note=PROOF_NOTE + "; trusted trig facts T1-T4; numpy object-array semantics; one generic peak (element-wise operations)",
      technique="contracts on the real C + symbolic execution of the real numpy functions, each against a common spec function; z3"),
 dict(id="C06", engine="cfront+csym", category="proof", design_ref="DESIGN.md section 5 C06",
      text="every obligation of inverse3x3, verify_rounding, score, score_and_refine, refine_assigned (postconditions = the property's "
           "count / least-squares definition as recursive sums, loop invariants, memory safety) discharged by z3 for all inputs and all peak counts",
      note=PROOF_NOTE + "; |ubi.g| <= 2^51; lemma rne_magic (bit-precise, thorough tier)",
      technique="function contracts + loop invariants on the real C (clang AST), VCs by symbolic execution, z3"),
 dict(id="C07", engine="cfront+csym", category="proof", design_ref="DESIGN.md section 5 C07",
      text="score_and_assign verified against its per-peak postcondition and frame, data-race freedom of its omp loop (two-iteration "
           "self-composition), hence thread-count independence; contract-level lemma for grain sequences",
      note=PROOF_NOTE, technique="function contract + DRF obligations + contract-level lemma, z3"),
]
_todo = "check under construction in this session (see DESIGN.md section 5 for the planned contracts)"
NOT_APPLICABLE = [
 dict(property_id="C08", reason="soundness+completeness of a heuristic search over a whole peak set and mutable indexer state: no per-function contract expresses 'finds every grain'; kernels covered by C05/C06/C07"),
 dict(property_id="C09", reason="convergence of a Nelder-Mead optimiser to a tolerance is not a partial-correctness property of any function; pieces covered by C01/C06/C07"),
] + [dict(property_id=i, reason=_todo) for i in
     ["C02", "C03", "C04", "C05", "C10", "C11", "C12", "C13", "C14", "C15", "C16", "C17", "C18", "C19", "C20"]]
