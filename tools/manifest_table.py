NOTES = ("Contract-based deductive verification with home-made VC generators (no C/Python verifier is installed). "
         "See DESIGN.md. Exit codes: 0 held, 1 VIOLATION, 2 UNDECIDED (could not form an obligation), 3 checker error.")
PROOF_NOTE = ("floats as reals; C ints as mathematical ints with overflow obligations; distinct buffers; libm = real functions; "
              "DRF meta-theorem for OpenMP loops; soundness of the VC generators and of z3/cvc5")
CHECKS = [
 dict(id="C01", engine="cfront+csym, symtrace", category="proof", design_ref="DESIGN.md section 5 C01",
      text="the three C geometry kernels, the python reference functions of transform.py, the numba copies of point_by_point.py, Ctransform and "
           "columnfile.updateGeometry (fast and slow route) are each proved equal to one reference geometry function for all parameters, "
           "peaks, omega signs and all wedge/chi/translation branches",
      note=PROOF_NOTE + "; trusted trig facts T1-T4; numpy object-array semantics; one generic peak (element-wise operations)",
      technique="contracts on the real C + symbolic execution of the real numpy functions, each against a common spec function; z3"),
 dict(id="C06", engine="cfront+csym", category="proof", design_ref="DESIGN.md section 5 C06",
      text="every obligation of inverse3x3, verify_rounding, score, score_and_refine, refine_assigned (postconditions = the property's "
           "count / least-squares definition as recursive sums, loop invariants, memory safety) discharged by z3 for all inputs and all peak counts",
      note=PROOF_NOTE + "; |ubi.g| <= 2^51; lemma rne_magic (bit-precise, thorough tier)",
      technique="function contracts + loop invariants on the real C (clang AST), VCs by symbolic execution, z3"),
 dict(id="C07", engine="cfront+csym", category="proof", design_ref="DESIGN.md section 5 C07",
      text="score_and_assign verified against its per-peak postcondition and frame, data-race freedom of its omp loop (two-iteration "
           "self-composition), hence thread-count independence; contract-level lemma for grain sequences",
      note=PROOF_NOTE, technique="function contract + DRF obligations + contract-level lemma, z3"),
]
CHECKS += [
 dict(id="C02", engine="symtrace, cfront+csym", category="other", design_ref="DESIGN.md section 5 C02",
      text="proved: |k|=|g|=2 sin(theta)/lambda for the python reference (all wedge/chi branches, any omega, omega sign) and for the reference geometry the C "
           "kernels are proved equal to; g(omega+delta) = Rz(delta)^T g(omega). Bounded stand-ins: detector round trip and both uncompute_g_vectors solutions",
      note=PROOF_NOTE + "; trig facts T1-T5; g_to_k / compute_xyz_from_tth_eta are only exercised by the bounded stand-ins",
      technique="symbolic traces + lemmas over the reference geometry (z3); seeded grids for the inverse functions"),
 dict(id="C04", engine="symtrace", category="other", design_ref="DESIGN.md section 5 C04",
      text="proved: every copy of the B formula, of cell-from-metric, of the metric tensor / inverse and of U=(B.ubi)^T equals one reference; bounded: the "
           "algebraic consistency clauses (B^T B = G*, U orthogonal, round trip, NaN voxels) on random cells",
      note="numpy.linalg.inv = adjugate; gufunc kernels extracted from the module source with the decorator dropped",
      technique="symbolic execution of the real python functions against a reference spec + run-time checks on a seeded grid"),
 dict(id="C10", engine="symtrace (matrix mode)", category="proof", design_ref="DESIGN.md section 5 C10",
      text="finite_strain executed on abstract matrix symbols: polar decomposition, Seth-Hill formulas for 7 values of m, symmetry, lab = R.ref.R^T, "
           "objectivity, zero strain for a rotation, all decided by z3; map and grain functions traced to the same F and svd expression",
      note="assumed svd contract, uniqueness of the SPD square root, matrix ring/transpose/inverse axioms",
      technique="execution of the real code on an uninterpreted matrix sort with algebra axioms; z3 E-matching"),
 dict(id="C11", engine="cfront+csym", category="other", design_ref="DESIGN.md section 5 C11",
      text="proved (dense variant + disjoint-set functions): memory safety incl. realloc, forest invariant, labels==0 <=> data<=threshold, labels in 0..n; "
           "bounded: partition equality of dense/sparse/splat vs BFS on all small masks, chains and random frames",
      note=PROOF_NOTE + "; partition equality only bounded", technique="function contracts + loop invariants (z3) and exhaustive small-image comparison"),
 dict(id="C19", engine="symtrace", category="proof", design_ref="DESIGN.md section 5 C19",
      text="all lab/sample/step/recon conversions proved mutually inverse for symbolic arguments, in-beam dty makes lab y zero, sincos variants, "
           "dty<->dtyi round trip, mask helpers are the stated compositions. The reconstruction clauses are not claimed (see assumptions)",
      note="sin^2+cos^2=1; ystep != 0; iradon accuracy/linearity/worker independence not applicable",
      technique="symbolic execution of the real functions; identities discharged by z3"),
 dict(id="C20", engine="cfront+csym", category="proof", design_ref="DESIGN.md section 5 C20",
      text="all functions of closest.c, cdiffraction.c, blobs.c and connectedpixels.c (except bloboverlaps) verified in safety mode: bounds, "
           "use-after-free, double free, leaks, signed overflow, division by zero, float-to-int range, uninitialised reads, output definedness, "
           "OpenMP data-race freedom; kernels not yet under contract are listed in the evidence and are not part of the claim",
      note=PROOF_NOTE + "; well-formed-call preconditions as written in the contracts", technique="safety contracts on the real C, VCs by symbolic execution, z3; ASan/UBSan replay"),
]
_todo = "check under construction in this session (see DESIGN.md section 5 for the planned contracts)"
NOT_APPLICABLE = [
 dict(property_id="C08", reason="soundness+completeness of a heuristic search over a whole peak set and mutable indexer state: no per-function contract expresses 'finds every grain'; kernels covered by C05/C06/C07"),
 dict(property_id="C09", reason="convergence of a Nelder-Mead optimiser to a tolerance is not a partial-correctness property of any function; pieces covered by C01/C06/C07"),
] + [dict(property_id=i, reason=_todo) for i in
     ["C03", "C05", "C12", "C13", "C14", "C15", "C16", "C17", "C18"]]
