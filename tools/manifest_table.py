NOTES = ("Contract-based deductive verification with home-made VC generators (no C/Python verifier is installed). "
         "See DESIGN.md. Exit codes: 0 held, 1 VIOLATION, 2 UNDECIDED (could not form an obligation), 3 checker error.")
PROOF_NOTE = ("floats as reals; C ints as mathematical ints with overflow obligations; distinct buffers; libm = real functions; "
              "DRF meta-theorem for OpenMP loops; soundness of the VC generators and of z3/cvc5")
CHECKS = [
 dict(id="C01", engine="cfront+csym, symtrace", category="proof", design_ref="DESIGN.md section 5 C01",
      text="the three C geometry kernels, the python reference functions of transform.py, the numba copies of point_by_point.py, Ctransform and "
           "columnfile.updateGeometry (fast and slow route), updateGV and the composing functions of point_by_point (argument wiring) are each proved equal to one reference geometry function for all parameters, "
           "peaks, omega signs and all wedge/chi/translation branches",
      note=PROOF_NOTE + "; trusted trig facts T1-T4; numpy object-array semantics; one generic peak (element-wise operations)",
      technique="contracts on the real C + symbolic execution of the real numpy functions, each against a common spec function; z3"),
 dict(id="C06", engine="cfront+csym", category="other", design_ref="DESIGN.md section 5 C06",
      text="proved: every obligation of inverse3x3, verify_rounding, score, score_and_refine, refine_assigned (postconditions = the property's "
           "count / least-squares definition as recursive sums, loop invariants, memory safety) discharged by z3 for all inputs and all peak counts. "
           "Bounded: the python references indexing.calc_drlv2 / refine and the f2py wrappers against the same specification on simulated data",
      note=PROOF_NOTE + "; |ubi.g| <= 2^51; lemma rne_magic (bit-precise, thorough tier); 'exactly as the python reference computes it' rests on the bounded stand-in; "
           "the bounded stand-ins evaluate contracts on the real code over the stated finite space and are never counted as proved",
      technique="function contracts + loop invariants on the real C (clang AST), VCs by symbolic execution, z3; run-time contract on the python references"),
 dict(id="C07", engine="cfront+csym", category="other", design_ref="DESIGN.md section 5 C07",
      text="proved: score_and_assign against its per-peak postcondition and frame, data-race freedom of its omp loop (two-iteration "
           "self-composition), hence thread-count independence; contract-level lemma for grain sequences. Bounded: the python glue "
           "indexer.fight_over_peaks / getind / myhistogram against a numpy reference over call histories on one indexer, grain orders and thread counts",
      note=PROOF_NOTE + "; the python glue rests on the bounded stand-in only; " + "the bounded stand-ins evaluate contracts on the real code over the stated finite space and are never counted as proved",
      technique="function contract + DRF obligations + contract-level lemma, z3; run-time contract on the python glue over a stated grid"),
]
CHECKS += [
 dict(id="C02", engine="symtrace, cfront+csym", category="other", design_ref="DESIGN.md section 5 C02",
      text="proved: |k|=|g|=2 sin(theta)/lambda for the python reference (all wedge/chi branches, any omega, omega sign) and for the reference geometry the C "
           "kernels are proved equal to; g(omega+delta) = Rz(delta)^T g(omega). Bounded stand-ins: detector round trip and both uncompute_g_vectors solutions",
      note=PROOF_NOTE + "; trig facts T1-T5; g_to_k / compute_xyz_from_tth_eta are only exercised by the bounded stand-ins",
      technique="symbolic traces + lemmas over the reference geometry (z3); seeded grids for the inverse functions"),
 dict(id="C04", engine="symtrace", category="other", design_ref="DESIGN.md section 5 C04",
      text="proved: every copy of the B formula, of cell-from-metric, of the metric tensor / inverse and of U=(B.ubi)^T equals one reference; bounded: the "
           "algebraic consistency clauses (B^T B = G*, U orthogonal, round trip, NaN voxels) on random cells",
      note="numpy.linalg.inv = adjugate; gufunc kernels extracted from the module source with the decorator dropped",
      technique="symbolic execution of the real python functions against a reference spec + run-time checks on a seeded grid"),
 dict(id="C10", engine="symtrace (matrix mode)", category="proof", design_ref="DESIGN.md section 5 C10",
      text="finite_strain executed on abstract matrix symbols: polar decomposition, Seth-Hill formulas for 7 values of m, symmetry, lab = R.ref.R^T, "
           "objectivity, zero strain for a rotation, all decided by z3; map and grain functions traced to the same F and svd expression",
      note="assumed svd contract, uniqueness of the SPD square root, matrix ring/transpose/inverse axioms",
      technique="execution of the real code on an uninterpreted matrix sort with algebra axioms; z3 E-matching"),
 dict(id="C11", engine="cfront+csym", category="other", design_ref="DESIGN.md section 5 C11",
      text="proved (dense variant + disjoint-set functions): memory safety incl. realloc, forest invariant, labels==0 <=> data<=threshold, labels in 0..n; "
           "bounded: partition equality of dense/sparse/splat vs BFS on all small masks, chains and random frames",
      note=PROOF_NOTE + "; partition equality only bounded", technique="function contracts + loop invariants (z3) and exhaustive small-image comparison"),
 dict(id="C19", engine="symtrace", category="other", design_ref="DESIGN.md section 5 C19",
      text="proved: all lab/sample/step/recon conversions mutually inverse for symbolic arguments, in-beam dty makes lab y zero, sincos variants, "
           "dty<->dtyi round trip, mask helpers are the stated compositions. Bounded: iradon worker-count / ROI-mask independence and linearity on random "
           "sinograms, point grains reconstruct within 1.5 px of the predicted coordinate",
      note="sin^2+cos^2=1; ystep != 0; the reconstruction clauses rest on the bounded stand-in only (FFT, interpolation, threads are outside the engines)",
      technique="symbolic execution of the real functions, identities discharged by z3; run-time contracts on the real iradon over a stated grid"),
 dict(id="C20", engine="cfront+csym", category="proof", design_ref="DESIGN.md section 5 C20",
      text="all functions of closest.c, cdiffraction.c, blobs.c and connectedpixels.c (except bloboverlaps) verified in safety mode: bounds, "
           "use-after-free, double free, leaks, signed overflow, division by zero, float-to-int range, uninitialised reads, output definedness, "
           "OpenMP data-race freedom; kernels not yet under contract are listed in the evidence and are not part of the claim",
      note=PROOF_NOTE + "; well-formed-call preconditions as written in the contracts", technique="safety contracts on the real C, VCs by symbolic execution, z3; ASan/UBSan replay"),
]
BOUNDED_NOTE = "the bounded stand-ins evaluate contracts on the real code over the stated finite space and are never counted as proved"
CHECKS += [
 dict(id="C03", engine="symtrace, pysym", category="other", design_ref="DESIGN.md section 5 C03",
      text="proved for all integers h,k,l: every centring rule of the outif table equals the tabulated systematic absence; ds(hkl)^2 = hkl.gi.hkl with gi the "
           "inverse metric; makerings executed symbolically on 5 peaks with symbolic ascending d* (partition, ascending rings, tolerance). Bounded: gethkls "
           "completeness / soundness / no duplicates and ring structure against brute-force enumeration on 14 cells",
      note="numpy.linalg.inv = adjugate; python % = floor modulo; the sweep loop of gethkls is only covered by the bounded stand-in; " + BOUNDED_NOTE,
      technique="symbolic execution of the real python functions (z3, all integers) + brute-force enumeration oracle on a stated grid"),
 dict(id="C05", engine="cfront+csym", category="other", design_ref="DESIGN.md section 5 C05",
      text="proved: memory safety of the compiled quickorient kernel and its Busing-Levy postcondition (for all g1, g2 with g1 x g2 != 0 and all BT the "
           "result R has R.g1 = BT.(|g1|,0,0), R.(g1 x g2) = BT.(0,0,|g1 x g2|), R.g2 = BT.(g1.g2/|g1|, -|g1 x g2|/|g1|, 0), over the reals). Bounded: for 9 cells of all lattice systems, random orientations and every non-collinear "
           "reflection pair of the first rings, every candidate of unitcell.orient is right handed, has the cell's parameters, indexes both reflections, the list "
           "contains the true orientation (crange mode) and no two equivalent candidates",
      note="the python side of C05 (BTmat, filter_pairs, the candidate list of orient) is decided by a bounded stand-in only; " + BOUNDED_NOTE,
      technique="functional + safety contract on the real C quickorient, VCs from the clang AST discharged by z3 + run-time contract evaluation of the real orient / filter_pairs on a stated grid"),
 dict(id="C12", engine="cfront+csym", category="other", design_ref="DESIGN.md section 5 C12",
      text="proved for all inputs: add_pixel adds exactly the pixel's contribution to each of the accumulators, merge combines two accumulator rows and zeroes the "
           "second; blobproperties: every sum accumulator of every label equals the sum over that label's pixels; memory safety of compute_moments. Bounded: the real labelimage pipeline on every pair of binary 2x3 frames, every triple of "
           "2x2 frames and random stacks vs a 3-D component oracle",
      note=PROOF_NOTE + "; python glue (mergelast / outputpeaks) and bloboverlaps only through the bounded stand-in; " + BOUNDED_NOTE,
      technique="function contracts on the real C (z3) + exhaustive small-stack comparison with an independent oracle"),
 dict(id="C13", engine="cfront+csym, clib run-time contracts", category="other", design_ref="DESIGN.md section 5 C13",
      text="proved (neighbormax, first stage): memory safety, race freedom, every interior pixel gets a direction code pointing at a largest of its nine "
           "neighbours. Bounded: the freshly compiled localmaxlabel kernels against the steepest-ascent specification on tie-free images, buffer-content "
           "and thread-count independence, sparse == dense partition; the thread dependence on long ascent paths is a recorded known finding",
      note=PROOF_NOTE + "; the label counting and walk-to-maximum stages (hand-made thread split) are only covered by the bounded stand-in; " + BOUNDED_NOTE,
      technique="function contract + proof-step assertion on the real C (z3); run-time evaluation of the steepest-ascent contract on the real kernels"),
 dict(id="C14", engine="cfront+csym", category="other", design_ref="DESIGN.md section 5 C14",
      text="proved for all images: tosparse_f32/u16/u32 return the count of selected pixels, every entry is a selected pixel with its value, positions strictly "
           "increase row-major; sparse_is_sorted characterised; sparse_overlaps soundness, completeness, ordering and tail zeroing; coverlaps safety and key faithfulness. "
           "Bounded: matrix entries of coverlaps, mask_to_coo, compress_duplicates and the sparse_frame python glue vs dictionary oracles",
      note=PROOF_NOTE + "; f2py passes contiguous arrays; " + BOUNDED_NOTE,
      technique="function contracts + loop invariants on the real C (z3) + run-time contracts on the python glue"),
 dict(id="C15", engine="numba run-time contracts", category="other", design_ref="DESIGN.md section 5 C15",
      text="bounded only: find_ND_labels vs union-find (labels exactly 0..n-1, same partition) on degenerate and random overlap graphs for several thread counts; "
           "numbapkmerge / pk2dmerge vs bincount sums and weighted means",
      note="no obligation is proved for C15 (numba prange kernels were not brought under engine P); " + BOUNDED_NOTE,
      technique="run-time evaluation of partition / sum contracts on the real numba functions over stated graph families"),
 dict(id="C16", engine="pysym, symtrace", category="proof", design_ref="DESIGN.md section 5 C16",
      text="the ten groups are closed terms decided completely (closure, inverses, integrality, det +1, order); o.G.o^T = G proved for every operator and symbolic "
           "conforming cell; find_uniq_u executed symbolically from its AST over the real group: in orbit, maximal trace, orbit-invariant and idempotent without "
           "ties; hklmax injectivity and find_uniq_hkls maximality",
      note="np.dot / trace / where on object arrays are the real functions; the tie case of find_uniq_u is a recorded known finding",
      technique="symbolic execution of the python AST with the loop over the real group unrolled; z3"),
 dict(id="C17", engine="icontract-style run-time invariants", category="other", design_ref="DESIGN.md section 5 C17",
      text="bounded only: class invariant of columnfile (titles / ncols / nrows / views are one storage, probed by writing through each view) and per-operation "
           "postconditions after every step of every operation sequence up to depth 3 (quick) / 4 (thorough) over 15 operations",
      note="no obligation is proved for C17 (numpy view aliasing is outside the engines); " + BOUNDED_NOTE,
      technique="class invariant + postconditions evaluated on the real class over all operation sequences up to a bound"),
 dict(id="C18", engine="run-time round-trip contracts", category="other", design_ref="DESIGN.md section 5 C18",
      text="bounded only: write/read round trips of columnfile text and HDF5, parameter files, grain files and sparse-frame HDF5 groups on a stated grid; FORMATS "
           "table inspected completely; parameter-file string coercions are recorded known findings",
      note="no obligation is proved for C18 (printf/strtod/h5py are external); " + BOUNDED_NOTE,
      technique="round-trip postconditions evaluated on the real writers and readers over a stated grid"),
]
CHECKS += [
 dict(id="C08", engine="run-time postcondition on simulated data", category="other", design_ref="DESIGN.md section 0.2 / 7",
      text="bounded only: the real indexer (assigntorings / find / scorethem via score_all_pairs) on g-vectors simulated from 1-4 (thorough 8) random grains "
           "of 8 cells, ideal and noisy with 30% spurious peaks: every reported orientation indexes more than minpks peaks, is right handed, has the cell's "
           "parameters, no two describe one lattice; on ideal data every grain is reported exactly once up to lattice symmetry",
      note="no obligation is proved for C08: 'finds every grain' is not a per-function contract (its kernels are proved under C05/C06/C07); " + BOUNDED_NOTE,
      technique="run-time evaluation of the property's postcondition on the real indexer over a stated simulation grid"),
 dict(id="C09", engine="run-time postcondition on simulated data", category="other", design_ref="DESIGN.md section 0.2 / 7",
      text="bounded only: the real refinegrains work flow of makemap on peaks forward-simulated from strained, translated grains for 13 (thorough 26) "
           "geometry settings (wedge, chi, omega sign, flips, tilts, omega floated, 1-5 grains): UBI recovered to 1e-5, translation to 1 um, every peak "
           "assigned to its grain, written files carry the simulated hkl",
      note="no obligation is proved for C09: convergence of a simplex optimiser is not a partial-correctness property (kernels proved under C01/C06/C07); " + BOUNDED_NOTE,
      technique="run-time evaluation of the property's postcondition on the real refinement work flow over a stated simulation grid"),
]
NOT_APPLICABLE = []
