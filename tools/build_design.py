#!/usr/bin/env python3
"""(re)insert tools/design_sec0.md, with the seeds table generated from seeded/*/detect.log, into DESIGN.md between the SEC0 markers"""
import os, subprocess, sys
HERE = os.path.dirname(os.path.dirname(os.path.abspath(__file__)))
sec = open(os.path.join(HERE, "tools", "design_sec0.md")).read()
table = subprocess.run([sys.executable, os.path.join(HERE, "tools", "seeds_table.py")], capture_output=True, text=True).stdout
sec = sec.replace("@@SEEDS@@", table.strip())
p = os.path.join(HERE, "DESIGN.md")
d = open(p).read()
B, E = "<!-- SEC0-BEGIN (generated from tools/design_sec0.md by tools/build_design.py) -->\n", "<!-- SEC0-END -->\n"
if B in d:
    d = d[:d.index(B)] + B + sec + E + d[d.index(E) + len(E):]
else:
    anchor = "## 1. Why contracts reach what the suite cannot"
    d = d.replace(anchor, B + sec + E + "\n" + anchor, 1)
open(p, "w").write(d)
print("DESIGN.md: section 0 is %d lines" % sec.count("\n"))
