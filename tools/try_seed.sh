#!/bin/sh
# usage: tools/try_seed.sh <patch.diff> <property> [tier]   -- apply a seeded change to /repo, run the check, undo it
P="$1"; ID="$2"; TIER="${3:-quick}"
git -C /repo apply "$P" || { echo "patch does not apply"; exit 9; }
cd /verif && ./check "$ID" --tier "$TIER" > /tmp/try_seed_$ID.log 2>&1; RC=$?
git -C /repo checkout -- . 
grep -E "^(VIOLATION|UNDECIDED|CHECKER-ERROR|KNOWN-FINDING|C[0-9]+ tier)" /tmp/try_seed_$ID.log | cut -c1-260 | head -12
echo "exit $RC"
