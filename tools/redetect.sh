#!/bin/sh
# usage: tools/redetect.sh <ID> <suffix> [check ids...]  -- re-run the quick check(s) against the still existing seeded worktree /tmp/seed_<ID><suffix>
ID="$1"; SUF="$2"; shift 2; CHECKS="${*:-$ID}"; WT=/tmp/seed_$ID$SUF; DST=/verif/seeded/${ID}_$SUF
: > $DST/detect.log
for c in $CHECKS; do
  (cd /verif && REPO=$WT ./check $c --tier quick 2>&1 | grep -E "^(VIOLATION|UNDECIDED|CHECKER-ERROR|KNOWN-FINDING|C[0-9]+ tier)" | cut -c1-260 | head -12) >> $DST/detect.log
done
echo "exit $(grep -c '^VIOLATION' $DST/detect.log | awk '{print ($1>0)?1:0}')" >> $DST/detect.log
tail -3 $DST/detect.log | cut -c1-200
